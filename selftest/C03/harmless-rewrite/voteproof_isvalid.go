package base

import (
	"github.com/spikeekips/mitum/util"
)

func IsValidVoteproof(vp Voteproof, networkID NetworkID) error {
	e := util.ErrInvalid.Errorf("invalid Voteproof")

	switch {
	case len(vp.ID()) < 1:
		return e.Errorf("empty id")
	case !vp.Point().Stage().CanVote():
		return e.Errorf("wrong stage, %q for Voteproof", vp.Point().Stage())
	case vp.Result() == VoteResultNotYet:
		return e.Errorf("not yet finished")
	case len(vp.SignFacts()) < 1:
		return e.Errorf("empty sign facts")
	}

	// NOTE check duplicated sign node in SignFacts
	if err := isValidVoteproofDuplicatedSignNode(vp); err != nil {
		return e.Wrap(err)
	}

	if err := util.CheckIsValiders(networkID, false,
		vp.Point(),
		vp.Result(),
		vp.Threshold(),
	); err != nil {
		return e.Wrap(err)
	}

	if err := isValidVoteproofVoteResult(vp, networkID); err != nil {
		return e.Wrap(err)
	}

	if err := isValidVoteproofSignFacts(vp, networkID); err != nil {
		return e.Wrap(err)
	}

	return nil
}

func isValidVoteproofDuplicatedSignNode(vp Voteproof) error {
	facts := vp.SignFacts()

	if util.IsDuplicatedSlice(facts, func(fact BallotSignFact) (bool, string) {
		switch {
		case fact == nil, fact.Node() == nil:
			return true, ""
		default:
			return true, fact.Node().String()
		}
	}) {
		return util.ErrInvalid.Errorf("duplicated node found in SignFacts of voteproof")
	}

	return nil
}

func isValidVoteproofVoteResult(vp Voteproof, networkID NetworkID) error {
	switch {
	case vp.Result() == VoteResultDraw:
		if vp.Majority() != nil {
			return util.ErrInvalid.Errorf("not empty majority for draw")
		}
	case vp.Majority() == nil:
		return util.ErrInvalid.Errorf("empty majority for majority")
	default:
		if err := vp.Majority().IsValid(networkID); err != nil {
			return util.ErrInvalid.WithMessage(err, "invalid majority")
		}

		if err := isValidFactInVoteproof(vp, vp.Majority()); err != nil {
			return util.ErrInvalid.WithMessage(err, "invalid majority")
		}
	}

	return nil
}

func isValidVoteproofSignFacts(vp Voteproof, networkID NetworkID) error {
	var majority util.Hash
	if vp.Majority() != nil {
		majority = vp.Majority().Hash()
	}

	vs := vp.SignFacts()
	bs := make([]util.IsValider, len(vs))

	for i := range vs {
		bs[i] = util.DummyIsValider(func([]byte) error {
			if vs[i] == nil {
				return util.ErrInvalid.Errorf("nil sign fact found")
			}

			if err := vs[i].IsValid(networkID); err != nil {
				return err
			}

			return isValidSignFactInVoteproof(vp, vs[i])
		})
	}

	if err := util.CheckIsValiders(networkID, false, bs...); err != nil {
		return util.ErrInvalid.WithMessage(err, "invalid sign facts")
	}

	if majority != nil {
		var foundMajority bool

	end:
		for i := range vs {
			switch fact, err := util.AssertInterfaceValue[BallotFact](vs[i].Fact()); {
			case err != nil:
				return util.ErrInvalid.Wrap(err)
			case fact.Hash().Equal(majority):
				foundMajority = true

				break end
			}
		}

		if !foundMajority {
			return util.ErrInvalid.Errorf("majoirty not found in sign facts")
		}
	}

	return nil
}

func IsValidINITVoteproof(vp INITVoteproof, _ NetworkID) error {
	if vp.Point().Stage() != StageINIT {
		return util.ErrInvalid.Errorf("wrong stage in INITVoteproof, %q", vp.Point().Stage())
	}

	return nil
}

func IsValidACCEPTVoteproof(vp ACCEPTVoteproof, _ NetworkID) error {
	if vp.Point().Stage() != StageACCEPT {
		return util.ErrInvalid.Errorf("wrong stage for ACCEPTVoteproof, %q", vp.Point().Stage())
	}

	return nil
}

func isValidFactInVoteproof(vp Voteproof, fact BallotFact) error {
	e := util.ErrInvalid.Errorf("invalid fact in voteproof")

	// NOTE check point
	if !vp.Point().Equal(fact.Point()) {
		return e.Errorf(
			"point does not match, voteproof(%q) != fact(%q)", vp.Point(), fact.Point())
	}

	return nil
}

func isValidSignFactInVoteproof(vp Voteproof, sf BallotSignFact) error {
	e := util.ErrInvalid.Errorf("invalid sign fact in voteproof")

	if err := isValidFactInVoteproof( //nolint:forcetypeassert // already checked
		vp, sf.Fact().(BallotFact)); err != nil {
		return e.Wrap(err)
	}

	return nil
}

func IsValidVoteproofWithSuffrage(vp Voteproof, suf Suffrage, th Threshold) error {
	e := util.ErrInvalid.Errorf("invalid voteproof with suffrage")

	sfs := vp.SignFacts()

	for i := range sfs {
		n := sfs[i]

		signer, address := n.Signer(), n.Node()
		if !suf.ExistsPublickey(address, signer) {
			if !suf.Exists(address) {
				return e.Errorf("node %q is not in suffrage", address)
			}

			return e.Errorf("publickey of %q does not match", address)
		}
	}

	if _, ok := vp.(StuckVoteproof); !ok {
		set, m := CountBallotSignFacts(sfs)
		defer clear(m)

		quorum := uint(suf.Len())
		result, majoritykey := FindVoteResult(quorum, th.Threshold(quorum), set)

		switch {
		case result != vp.Result():
			return e.Errorf("wrong result; voteproof(%q) != %q", vp.Result(), result)
		case result == VoteResultDraw:
			if vp.Majority() != nil {
				return e.Errorf("not empty majority for draw")
			}
		case result == VoteResultMajority:
			if vp.Majority() == nil {
				return e.Errorf("empty majority for majority")
			}

			if !vp.Majority().Hash().Equal(m[majoritykey].Hash()) {
				return e.Errorf("wrong majority for majority")
			}
		}
	}

	return nil
}
