package isaac

import (
	"github.com/spikeekips/mitum/base"
	"github.com/spikeekips/mitum/util"
)

// validVoteproofs remembers the voteproofs, which already passed
// IsValidVoteproofWithSuffrage(). The same voteproof is delivered again and
// again, within the ballots of every suffrage node and by the voteproof
// broadcast; checking the expels and counting the votes for each of them is
// wasteful.
var validVoteproofs = util.NewLRUGCache[string, struct{}](1 << 10) //nolint:gomnd //...

func IsValidVoteproofWithSuffrage(vp base.Voteproof, suf base.Suffrage) error {
	if vp == nil {
		return util.ErrInvalid.Errorf("invalid voteproof with suffrage").Errorf("nil voteproof")
	}

	if validVoteproofs.Exists(vp.ID()) {
		return nil
	}

	if err := isValidVoteproofWithSuffrage(vp, suf); err != nil {
		return err
	}

	validVoteproofs.Set(vp.ID(), struct{}{}, 0)

	return nil
}

func isValidVoteproofWithSuffrage(vp base.Voteproof, suf base.Suffrage) error {
	e := util.ErrInvalid.Errorf("invalid voteproof with suffrage")

	var expels []base.SuffrageExpelOperation

	if w, ok := vp.(base.HasExpels); ok {
		expels = w.Expels()
	}

	th := vp.Threshold()
	rsuf := suf

	if len(expels) > 0 {
		for i := range expels {
			if err := IsValidExpelWithSuffrage(vp.Point().Height(), expels[i], suf); err != nil {
				return e.Wrap(err)
			}
		}

		switch i, err := NewSuffrageWithExpels(suf, vp.Threshold(), expels); {
		case err != nil:
			return e.Wrap(err)
		default:
			rsuf = i
			th = base.MaxThreshold
		}
	}

	if _, ok := vp.(base.StuckVoteproof); ok {
		if suf.Len() != len(vp.SignFacts())+len(expels) {
			return e.Errorf("not enough sign facts with expels")
		}
	}

	if err := base.IsValidVoteproofWithSuffrage(vp, rsuf, th); err != nil {
		return e.Wrap(err)
	}

	return nil
}
