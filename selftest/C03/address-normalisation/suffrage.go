package isaac

import (
	"strings"

	"github.com/pkg/errors"
	"github.com/spikeekips/mitum/base"
	"github.com/spikeekips/mitum/util"
)

type Suffrage struct {
	m  map[string]base.Node
	ns []base.Node
}

func NewSuffrage(nodes []base.Node) (Suffrage, error) {
	e := util.StringError("new suffrage")

	if len(nodes) < 1 {
		return Suffrage{}, e.Errorf("empty suffrage nodes")
	}

	m := map[string]base.Node{}

	for i := range nodes {
		n := nodes[i]
		if n == nil {
			return Suffrage{}, e.Errorf("nil node address")
		}

		m[suffrageNodeKey(n.Address())] = n
	}

	if util.IsDuplicatedSlice(nodes, func(i base.Node) (bool, string) {
		if i == nil {
			return true, ""
		}

		return true, suffrageNodeKey(i.Address())
	}) {
		return Suffrage{}, e.Errorf("duplicated node address found")
	}

	return Suffrage{m: m, ns: nodes}, nil
}

func (suf Suffrage) Exists(node base.Address) bool {
	_, found := suf.m[suffrageNodeKey(node)]

	return found
}

func (suf Suffrage) ExistsPublickey(node base.Address, pub base.Publickey) bool {
	switch n, found := suf.m[suffrageNodeKey(node)]; {
	case !found:
		return false
	case !n.Publickey().Equal(pub):
		return false
	default:
		return true
	}
}

// suffrageNodeKey is the lookup key of suffrage node. The node addresses which
// differ only in letter case are same node for suffrage; they can not be the
// members of suffrage at the same time.
func suffrageNodeKey(node base.Address) string {
	return strings.ToLower(node.String())
}

func (suf Suffrage) Nodes() []base.Node {
	return suf.ns
}

func (suf Suffrage) Len() int {
	return len(suf.ns)
}

func NewSuffrageWithExpels(
	suf base.Suffrage,
	threshold base.Threshold,
	expels []base.SuffrageExpelOperation,
) (base.Suffrage, error) {
	if len(expels) < 1 {
		return suf, nil
	}

	th := threshold.Threshold(uint(suf.Len()))
	if n := uint(len(expels)); n > uint(suf.Len())-th {
		th = uint(suf.Len()) - n
	}

	for i := range expels {
		if n := uint(len(expels[i].NodeSigns())); n < th {
			return nil, errors.Errorf("insufficient expel node signs; node signs=%d threshold=%d", n, th)
		}
	}

	nodes := suf.Nodes()

	filtered := util.Filter2Slices(nodes, expels, func(x base.Node, y base.SuffrageExpelOperation) bool {
		return x.Address().Equal(y.ExpelFact().Node())
	})

	return NewSuffrage(filtered)
}
