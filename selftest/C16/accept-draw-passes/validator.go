package isaacblock

import (
	"context"
	"os"
	"sync"

	"github.com/pkg/errors"
	"github.com/spikeekips/mitum/base"
	"github.com/spikeekips/mitum/isaac"
	"github.com/spikeekips/mitum/util"
	"github.com/spikeekips/mitum/util/fixedtree"
)

var (
	ErrLastBlockMapOnlyInDatabase = util.NewIDError("last blockmap found in database, but not in local fs")
	ErrLastBlockMapOnlyInLocalFS  = util.NewIDError("last blockmap found in local fs, but not in database")
)

type ErrValidatedDifferentHeightBlockMaps struct {
	*util.IDError
	db      base.Height
	localfs base.Height
}

func newErrValidatedDifferentHeightBlockMaps(db, localfs base.Height) *ErrValidatedDifferentHeightBlockMaps {
	return &ErrValidatedDifferentHeightBlockMaps{
		IDError: util.NewBaseIDErrorWithID("dhb", "different height blockmaps"),
		db:      db,
		localfs: localfs,
	}
}

func (er *ErrValidatedDifferentHeightBlockMaps) Wrap(err error) error {
	ner := er.IDError.Wrap(err)
	if ner == nil {
		return nil
	}

	return &ErrValidatedDifferentHeightBlockMaps{
		IDError: ner.(*util.IDError), //nolint:forcetypeassert //...
		db:      er.db,
		localfs: er.localfs,
	}
}

func (er *ErrValidatedDifferentHeightBlockMaps) WithMessage(err error, format string, args ...interface{}) error {
	ner := er.IDError.WithMessage(err, format, args...)
	if ner == nil {
		return nil
	}

	return &ErrValidatedDifferentHeightBlockMaps{
		IDError: ner.(*util.IDError), //nolint:forcetypeassert //...
		db:      er.db,
		localfs: er.localfs,
	}
}

func (er *ErrValidatedDifferentHeightBlockMaps) Errorf(
	format string, args ...interface{},
) *ErrValidatedDifferentHeightBlockMaps {
	return &ErrValidatedDifferentHeightBlockMaps{
		IDError: er.IDError.Errorf(format, args...),
		db:      er.db,
		localfs: er.localfs,
	}
}

func (er *ErrValidatedDifferentHeightBlockMaps) WithStack() *ErrValidatedDifferentHeightBlockMaps {
	return &ErrValidatedDifferentHeightBlockMaps{
		IDError: er.IDError.WithStack(),
		db:      er.db,
		localfs: er.localfs,
	}
}

func (er *ErrValidatedDifferentHeightBlockMaps) DatabaseHeight() base.Height {
	return er.db
}

func (er *ErrValidatedDifferentHeightBlockMaps) LocalFSHeight() base.Height {
	return er.localfs
}

func IsValidLastBlocks(
	readers *isaac.BlockItemReaders,
	remotes isaac.RemotesBlockItemReadFunc,
	db isaac.Database,
	networkID base.NetworkID,
) error {
	var lastmapdb, lastmaplocalfs base.BlockMap

	switch i, found, err := loadLastBlockMapFromDatabase(db, networkID); {
	case err != nil:
		return errors.WithMessage(err, "last BlockMap from database")
	case !found:
	default:
		lastmapdb = i
	}

	switch last, found, err := loadLastBlockMapFromLocalFS(readers, remotes); {
	case err != nil:
		return errors.WithMessage(err, "find last height from local fs")
	case !found:
	default:
		if err := last.IsValid(networkID); err != nil {
			return errors.WithMessage(err, "invalid last height from local fs")
		}

		lastmaplocalfs = last
	}

	switch {
	case lastmapdb == nil && lastmaplocalfs == nil:
		return nil
	case lastmapdb != nil && lastmaplocalfs == nil:
		return ErrLastBlockMapOnlyInDatabase.WithStack()
	case lastmapdb == nil && lastmaplocalfs != nil:
		return ErrLastBlockMapOnlyInLocalFS.WithStack()
	default:
		if err := base.IsEqualBlockMap(lastmapdb, lastmaplocalfs); err != nil {
			if lastmapdb.Manifest().Height() != lastmaplocalfs.Manifest().Height() {
				err = newErrValidatedDifferentHeightBlockMaps(
					lastmapdb.Manifest().Height(),
					lastmaplocalfs.Manifest().Height(),
				).WithStack()
			}

			return err
		}

		return nil
	}
}

func loadLastBlockMapFromDatabase(db isaac.Database, networkID base.NetworkID) (base.BlockMap, bool, error) {
	switch i, found, err := db.LastBlockMap(); {
	case err != nil:
		return nil, false, err
	case !found:
		return nil, false, nil
	default:
		if err := i.IsValid(networkID); err != nil {
			return nil, false, err
		}

		return i, true, nil
	}
}

func loadLastBlockMapFromLocalFS(
	readers *isaac.BlockItemReaders,
	remotes isaac.RemotesBlockItemReadFunc,
) (base.BlockMap, bool, error) {
	var last base.Height

	switch i, _, found, err := FindHighestDirectory(readers.Root()); {
	case err != nil:
		return nil, false, err
	case !found:
		return nil, false, nil
	default:
		last = i
	}

	return isaac.BlockItemReadersDecode[base.BlockMap](
		isaac.BlockItemReadersItemFuncWithRemote(readers, remotes, nil)(context.Background()),
		last,
		base.BlockItemMap,
		nil,
	)
}

func IsValidAllBlockMapsFromLocalFS(
	readers *isaac.BlockItemReaders,
	last base.Height,
	networkID base.NetworkID,
) error {
	e := util.StringError("validate local fs")

	switch fi, err := os.Stat(readers.Root()); {
	case err != nil:
		return e.Wrap(err)
	case !fi.IsDir():
		return e.Errorf("not directory")
	}

	// NOTE check all block items
	var validateLock sync.Mutex
	var lastprev, newprev base.BlockMap
	var maps []base.BlockMap

	var batchlimit int64 = 333 //nolint:mnd //...

	if err := util.BatchWork(context.Background(), last.Int64()+1, batchlimit,
		func(_ context.Context, last uint64) error {
			lastprev = newprev

			switch r := (last + 1) % uint64(batchlimit); {
			case r == 0:
				maps = make([]base.BlockMap, batchlimit)
			default:
				maps = make([]base.BlockMap, r)
			}

			return nil
		},
		func(_ context.Context, i, last uint64) error {
			height := base.Height(int64(i))

			var m base.BlockMap

			switch i, found, err := isaac.BlockItemReadersDecode[base.BlockMap](
				readers.Item, height, base.BlockItemMap, nil); {
			case err != nil:
				return err
			case !found:
				return util.ErrNotFound.Errorf("blockmap")
			default:
				if err := i.IsValid(networkID); err != nil {
					return err
				}

				m = i
			}

			if m.Manifest().Height() != height {
				return newErrValidatedDifferentHeightBlockMaps(height, m.Manifest().Height()).WithStack()
			}

			return func() error {
				validateLock.Lock()
				defer validateLock.Unlock()

				if err := base.IsValidMaps(m, maps, lastprev); err != nil {
					return err
				}

				if m.Manifest().Height() == base.Height(int64(last)) {
					newprev = m
				}

				return nil
			}()
		},
	); err != nil {
		return e.Wrap(err)
	}

	maps = nil

	return nil
}

func IsValidBlockFromLocalFS(
	itemf isaac.BlockItemReadersItemFunc,
	height base.Height,
	networkID base.NetworkID,
	validateBlockMapf func(base.BlockMap) error,
	validateOperationf func(base.Operation) error,
	validateStatef func(base.State) error,
) error {
	e := util.StringError("validate imported block")

	var bm base.BlockMap

	switch i, found, err := isaac.BlockItemReadersDecode[base.BlockMap](itemf, height, base.BlockItemMap, nil); {
	case err != nil:
		return e.Wrap(err)
	case !found:
		return e.Wrap(util.ErrNotFound.Errorf("blockmap, %v", height))
	default:
		if err := i.IsValid(networkID); err != nil {
			return err
		}

		if validateBlockMapf != nil {
			if err := validateBlockMapf(i); err != nil {
				return err
			}
		}

		bm = i
	}

	pr, ops, sts, opstree, ststree, vps, err := loadBlockItemsFromReader(bm, itemf, height)
	if err != nil {
		return err
	}

	if err := pr.IsValid(networkID); err != nil {
		return err
	}

	if err := base.IsValidProposalWithManifest(pr, bm.Manifest()); err != nil {
		return err
	}

	if err := IsValidOperationsOfBlock(opstree, ops, bm.Manifest(), networkID, validateOperationf); err != nil {
		return err
	}

	if err := IsValidStatesOfBlock(ststree, sts, bm.Manifest(), networkID, validateStatef); err != nil {
		return err
	}

	return isValidVoteproofsFromLocalFS(networkID, vps, bm.Manifest())
}

func loadBlockItemsFromReader( //revive:disable-line:function-result-limit
	bm base.BlockMap,
	itemf isaac.BlockItemReadersItemFunc,
	height base.Height,
) (
	pr base.ProposalSignFact,
	ops []base.Operation,
	sts []base.State,
	opstree, ststree fixedtree.Tree,
	vps [2]base.Voteproof,
	_ error,
) {
	load := func(item base.BlockItemType) error {
		switch item {
		case base.BlockItemProposal:
			return decodeBlockItemFromReader[base.ProposalSignFact](itemf, height, item, &pr)
		case base.BlockItemOperationsTree:
			return decodeBlockItemFromReader[fixedtree.Tree](itemf, height, item, &opstree)
		case base.BlockItemStatesTree:
			return decodeBlockItemFromReader[fixedtree.Tree](itemf, height, item, &ststree)
		case base.BlockItemVoteproofs:
			return decodeBlockItemFromReader[[2]base.Voteproof](itemf, height, item, &vps)
		case base.BlockItemOperations:
			return decodeBlockItemsFromReader[base.Operation](itemf, height, item, &ops)
		case base.BlockItemStates:
			return decodeBlockItemsFromReader[base.State](itemf, height, item, &sts)
		default:
			return errors.Errorf("unknown item, %q", item)
		}
	}

	var rerr error

	bm.Items(func(item base.BlockMapItem) bool {
		rerr = load(item.Type())

		return rerr == nil
	})

	return pr, ops, sts, opstree, ststree, vps, rerr
}

func decodeBlockItemFromReader[T any](
	itemf isaac.BlockItemReadersItemFunc,
	height base.Height,
	item base.BlockItemType,
	v *T,
) error {
	switch i, found, err := isaac.BlockItemReadersDecode[T](itemf, height, item, nil); {
	case err != nil:
		return err
	case !found:
		return util.ErrNotFound.Errorf("block item, %q", item)
	default:
		return util.SetInterfaceValue(i, v)
	}
}

func decodeBlockItemsFromReader[T any](
	itemf isaac.BlockItemReadersItemFunc,
	height base.Height,
	item base.BlockItemType,
	v *[]T,
) error {
	switch _, i, found, err := isaac.BlockItemReadersDecodeItems[T](itemf, height, item, nil, nil); {
	case err != nil:
		return err
	case !found:
		return util.ErrNotFound.Errorf("block item, %q", item)
	default:
		return util.SetInterfaceValue(i, v)
	}
}

func IsValidOperationsOfBlock( //nolint:dupl //...
	opstree fixedtree.Tree,
	ops []base.Operation,
	manifest base.Manifest,
	networkID base.NetworkID,
	validateOperationf func(base.Operation) error,
) error {
	e := util.StringError("validate imported operations")

	if err := opstree.IsValid(nil); err != nil {
		return e.Wrap(err)
	}

	if err := base.IsValidOperationsTreeWithManifest(opstree, ops, manifest); err != nil {
		return e.Wrap(err)
	}

	if len(ops) > 0 {
		if err := util.BatchWork(context.Background(), int64(len(ops)), 333, //nolint:mnd //...
			func(context.Context, uint64) error { return nil },
			func(_ context.Context, i, _ uint64) error {
				op := ops[i]

				if err := op.IsValid(networkID); err != nil {
					return err
				}

				if validateOperationf != nil {
					if err := validateOperationf(op); err != nil {
						return err
					}
				}

				return nil
			},
		); err != nil {
			return e.Wrap(err)
		}
	}

	return nil
}

func IsValidStatesOfBlock( //nolint:dupl //...
	ststree fixedtree.Tree,
	sts []base.State,
	manifest base.Manifest,
	networkID base.NetworkID,
	validateStatef func(base.State) error,
) error {
	e := util.StringError("validate imported states")

	if err := ststree.IsValid(nil); err != nil {
		return e.Wrap(err)
	}

	if err := base.IsValidStatesTreeWithManifest(ststree, sts, manifest); err != nil {
		return e.Wrap(err)
	}

	if len(sts) > 0 {
		if err := util.BatchWork(context.Background(), int64(len(sts)), 333, //nolint:mnd //...
			func(context.Context, uint64) error { return nil },
			func(_ context.Context, i, _ uint64) error {
				st := sts[i]

				if err := st.IsValid(networkID); err != nil {
					return err
				}

				if validateStatef != nil {
					if err := validateStatef(st); err != nil {
						return err
					}
				}

				return nil
			},
		); err != nil {
			return e.Wrap(err)
		}
	}

	return nil
}

func isValidVoteproofsFromLocalFS(networkID base.NetworkID, vps [2]base.Voteproof, m base.Manifest) error {
	for i := range vps {
		if vps[i] == nil {
			continue
		}

		if err := vps[i].IsValid(networkID); err != nil {
			return err
		}
	}

	if err := base.IsValidVoteproofsWithManifest(vps, m); err != nil {
		return err
	}

	return isValidACCEPTVoteproofWithManifest(vps[1], m)
}

// isValidACCEPTVoteproofWithManifest checks that the accept voteproof of the
// block has the majority for the manifest.
func isValidACCEPTVoteproofWithManifest(vp base.Voteproof, m base.Manifest) error {
	e := util.ErrInvalid.Errorf("accept voteproof with manifest")

	avp, err := util.AssertInterfaceValue[base.ACCEPTVoteproof](vp)
	if err != nil {
		return e.Wrap(err)
	}

	if majority := avp.BallotMajority(); majority != nil && !majority.NewBlock().Equal(m.Hash()) {
		return e.Errorf("new block of majority does not match with manifest")
	}

	return nil
}

func IsValidBlocksFromStorage(
	itemf isaac.BlockItemReadersItemFunc,
	fromHeight, toHeight base.Height,
	networkID base.NetworkID,
	db isaac.Database,
	whenBlockDonef func(base.BlockMap, error) error,
) error {
	diff := toHeight - fromHeight

	if err := util.BatchWork(
		context.Background(),
		diff.Int64()+1,
		333, //nolint:mnd //...
		func(context.Context, uint64) error {
			return nil
		},
		func(_ context.Context, i, _ uint64) error {
			height := base.Height(int64(i) + fromHeight.Int64())

			var mapdb base.BlockMap
			switch i, found, err := db.BlockMap(height); {
			case err != nil:
				return err
			case !found:
				return util.ErrNotFound.Errorf("blockmap not found in database; %d", height)
			default:
				mapdb = i
			}

			err := IsValidBlockFromLocalFS(itemf, height, networkID,
				func(m base.BlockMap) error {
					return base.IsEqualBlockMap(mapdb, m)
				},
				func(op base.Operation) error {
					switch found, err := db.ExistsKnownOperation(op.Hash()); {
					case err != nil:
						return err
					case !found:
						return util.ErrNotFound.Errorf("operation not found in database; %q", op.Hash())
					default:
						return nil
					}
				},
				func(st base.State) error {
					switch rst, found, err := db.State(st.Key()); {
					case err != nil:
						return err
					case !found:
						return util.ErrNotFound.Errorf("state not found in State")
					case !base.IsEqualState(st, rst):
						return errors.Errorf("states does not match")
					}

					ops := st.Operations()
					for j := range ops {
						switch found, err := db.ExistsInStateOperation(ops[j]); {
						case err != nil:
							return err
						case !found:
							return util.ErrNotFound.Errorf("operation of state not found in database")
						}
					}

					return nil
				},
			)

			if whenBlockDonef == nil {
				return err
			}

			return whenBlockDonef(mapdb, err)
		},
	); err != nil {
		return errors.WithMessage(err, "validate imported blocks")
	}

	return nil
}
