package isaac

import (
	"context"
	"sort"
	"sync"
	"time"

	"github.com/pkg/errors"
	"github.com/spikeekips/mitum/base"
	"github.com/spikeekips/mitum/network/quicstream"
	"github.com/spikeekips/mitum/util"
)

var errFailedToRequestProposalToNode = util.NewIDError("request proposal to node")

type ProposalSelectFunc func(
	_ context.Context,
	_ base.Point,
	previousBlock util.Hash,
	wait time.Duration, // NOTE wait to get proposal from 1st proposal, if failed, get from next others
) (base.ProposalSignFact, error)

type BaseProposalSelectorArgs struct {
	Pool                    ProposalPool
	ProposerSelectFunc      ProposerSelectFunc
	Maker                   *ProposalMaker
	GetNodesFunc            func(base.Height) ([]base.Node, bool, error)
	RequestFunc             func(context.Context, base.Point, base.Node, util.Hash) (base.ProposalSignFact, bool, error)
	TimeoutRequest          func() time.Duration
	RequestProposalInterval time.Duration
	MinProposerWait         time.Duration
}

func NewBaseProposalSelectorArgs() *BaseProposalSelectorArgs {
	return &BaseProposalSelectorArgs{
		GetNodesFunc: func(base.Height) ([]base.Node, bool, error) {
			return nil, false, errors.Wrapf(context.Canceled, "get nodes")
		},
		RequestFunc: func(context.Context, base.Point, base.Node, util.Hash) (base.ProposalSignFact, bool, error) {
			return nil, false, util.ErrNotImplemented.Errorf("request")
		},
		RequestProposalInterval: time.Millisecond * 666,              //nolint:mnd //...
		MinProposerWait:         DefaultTimeoutRequest + time.Second, //nolint:mnd //...
		TimeoutRequest: func() time.Duration {
			return DefaultTimeoutRequest
		},
	}
}

type BaseProposalSelector struct {
	local  base.LocalNode
	args   *BaseProposalSelectorArgs
	sorted map[base.Height][]base.Node // sorted suffrage nodes by height, never invalidated
	l      sync.Mutex
}

func NewBaseProposalSelector(
	local base.LocalNode,
	args *BaseProposalSelectorArgs,
) *BaseProposalSelector {
	return &BaseProposalSelector{
		local: local,
		args:  args,
	}
}

func (p *BaseProposalSelector) Select(
	ctx context.Context,
	point base.Point,
	previousBlock util.Hash,
	wait time.Duration,
) (base.ProposalSignFact, error) {
	switch pr, err := p.selectInternal(ctx, point, previousBlock, wait); {
	case errors.Is(err, errFailedToRequestProposalToNode),
		errors.Is(err, context.Canceled),
		errors.Is(err, context.DeadlineExceeded):
		pr, err = p.args.Maker.Make(ctx, point, previousBlock)
		if err != nil {
			return nil, err
		}

		if _, eerr := p.args.Pool.SetProposal(pr); eerr != nil {
			return nil, eerr
		}

		return pr, nil
	case err != nil:
		return nil, err
	default:
		return pr, nil
	}
}

func (p *BaseProposalSelector) selectInternal(
	ctx context.Context,
	point base.Point,
	previousBlock util.Hash,
	wait time.Duration,
) (base.ProposalSignFact, error) {
	p.l.Lock()
	defer p.l.Unlock()

	pwait := wait
	if pwait < p.args.MinProposerWait {
		pwait = p.args.MinProposerWait
	}

	wctx, cancel := context.WithTimeout(ctx, pwait)
	defer cancel()

	var nodes []base.Node

	switch i, found, err := p.getNodes(point.Height(), p.args.GetNodesFunc); {
	case err != nil, !found:
		if err == nil {
			err = errors.Errorf("nodes not found for height, %v", point)
		}

		return nil, errors.WithMessagef(err, "get suffrage for height, %d", point.Height())
	case len(i) < 2:
		return p.proposalFromNode(wctx, point, i[0], previousBlock)
	default:
		nodes = i
	}

	var failed base.Address

	switch pr, proposer, err := p.selectFromProposer(wctx, point, nodes, previousBlock); {
	case errors.Is(err, errFailedToRequestProposalToNode),
		errors.Is(err, context.Canceled),
		errors.Is(err, context.DeadlineExceeded):
		failed = proposer
	case err != nil:
		return nil, err
	case pr != nil:
		return pr, nil
	default:
		failed = proposer
	}

	if failed != nil {
		nodes = p.filterDeadNodes(nodes, []base.Address{failed})
	}

	if len(nodes) < 1 {
		return nil, errFailedToRequestProposalToNode.Errorf("empty nodes")
	}

	// NOTE if failed from original proposer, request to the other nodes. The
	// previous context may be already expired, so proposalFromOthers uses new
	// context.
	wctx, cancel = context.WithTimeout(ctx, pwait)
	defer cancel()

	return p.proposalFromOthers(wctx, point, nodes, previousBlock)
}

func (p *BaseProposalSelector) selectFromProposer(
	ctx context.Context,
	point base.Point,
	nodes []base.Node,
	previousBlock util.Hash,
) (base.ProposalSignFact, base.Address, error) {
	e := util.StringError("select proposal from proposer")

	proposer, err := p.args.ProposerSelectFunc(ctx, point, nodes, previousBlock)
	if err != nil {
		return nil, nil, e.WithMessage(err, "select proposer")
	}

	pr, err := p.proposalFromNode(ctx, point, proposer, previousBlock)
	if err != nil {
		return nil, proposer.Address(), e.Wrap(err)
	}

	return pr, proposer.Address(), err
}

func (p *BaseProposalSelector) proposalFromNode(
	ctx context.Context,
	point base.Point,
	proposer base.Node,
	previousBlock util.Hash,
) (base.ProposalSignFact, error) {
	ticker := time.NewTicker(time.Millisecond * 33)
	defer ticker.Stop()

	var reset sync.Once

	for {
		select {
		case <-ctx.Done():
			return nil, errors.WithStack(ctx.Err())
		case <-ticker.C:
			reset.Do(func() {
				ticker.Reset(p.args.RequestProposalInterval)
			})

			switch pr, err := p.findProposal(ctx, point, proposer, previousBlock); {
			case err == nil:
				return pr, nil
			case errors.Is(err, context.Canceled), errors.Is(err, context.DeadlineExceeded):
				// NOTE ignore context error from findProposal; if context error
				// is from main context, it will be catched from the main select
				// ctx.Done().
			case errors.Is(err, errFailedToRequestProposalToNode):
			default:
				return nil, errors.WithMessage(err, "find proposal")
			}
		}
	}
}

func (p *BaseProposalSelector) proposalFromOthers(
	ctx context.Context,
	point base.Point,
	nodes []base.Node,
	previousBlock util.Hash,
) (base.ProposalSignFact, error) {
	if len(nodes) < 1 {
		return nil, errors.Errorf("empty nodes")
	}

	ticker := time.NewTicker(1)
	defer ticker.Stop()

	var reset sync.Once

	filtered := nodes

	for {
		select {
		case <-ctx.Done():
			return nil, errors.WithStack(ctx.Err())
		case <-ticker.C:
			reset.Do(func() {
				ticker.Reset(p.args.RequestProposalInterval)
			})

			proposer, err := p.args.ProposerSelectFunc(ctx, point, filtered, previousBlock)
			if err != nil {
				return nil, errors.WithMessage(err, "select proposer")
			}

			switch pr, err := p.findProposal(ctx, point, proposer, previousBlock); {
			case err == nil:
				return pr, nil
			case errors.Is(err, errFailedToRequestProposalToNode):
				// NOTE if failed to request to remote node, remove the node from
				// candidates.
				filtered = p.filterDeadNodes(filtered, []base.Address{proposer.Address()})
				if len(filtered) < 1 {
					return nil, errors.WithMessage(err, "no valid nodes left")
				}
			default:
				return nil, errors.WithMessage(err, "find proposal")
			}
		}
	}
}

func (p *BaseProposalSelector) findProposal(
	ctx context.Context,
	point base.Point,
	proposer base.Node,
	previousBlock util.Hash,
) (base.ProposalSignFact, error) {
	e := util.StringError("find proposal")

	switch pr, found, err := p.args.Pool.ProposalByPoint(point, proposer.Address(), previousBlock); {
	case err != nil:
		return nil, e.Wrap(err)
	case found:
		return pr, nil
	}

	pr, err := p.findProposalFromProposer(ctx, point, proposer, previousBlock)
	if err != nil {
		return nil, e.Wrap(err)
	}

	return pr, nil
}

func (p *BaseProposalSelector) findProposalFromProposer(
	ctx context.Context,
	point base.Point,
	proposer base.Node,
	previousBlock util.Hash,
) (base.ProposalSignFact, error) {
	if proposer.Address().Equal(p.local.Address()) {
		return p.args.Maker.Make(ctx, point, previousBlock)
	}

	// NOTE if not found in local, request to proposer node
	rctx, cancel := context.WithTimeout(ctx, p.args.TimeoutRequest())
	defer cancel()

	donech := make(chan interface{})

	go func() {
		switch pr, found, err := p.args.RequestFunc(rctx, point, proposer, previousBlock); {
		case err != nil, !found:
			if !found {
				err = errors.Errorf("empty proposal")
			}

			donech <- err
		default:
			donech <- pr
		}
	}()

	select {
	case <-rctx.Done():
		return nil, errFailedToRequestProposalToNode.WithMessage(
			rctx.Err(), "context error; remote node, %q", proposer.Address())
	case i := <-donech:
		switch t := i.(type) {
		case error:
			return nil, errFailedToRequestProposalToNode.WithMessage(
				t, "request failed; remote node, %q", proposer.Address())
		case base.ProposalSignFact:
			if _, err := p.args.Pool.SetProposal(t); err != nil {
				return nil, err
			}

			return t, nil
		}
	}

	return nil, errors.Errorf("empty proposal")
}

func (*BaseProposalSelector) filterDeadNodes(n []base.Node, b []base.Address) []base.Node {
	return util.Filter2Slices( // NOTE filter long dead nodes
		n, b,
		func(x base.Node, y base.Address) bool {
			return x.Address().Equal(y)
		},
	)
}

func (p *BaseProposalSelector) getNodes(
	height base.Height,
	f func(base.Height) ([]base.Node, bool, error),
) ([]base.Node, bool, error) {
	if nodes, found := p.sorted[height]; found {
		return nodes, true, nil
	}

	switch nodes, found, err := f(height.SafePrev()); {
	case err != nil, !found:
		return nil, found, err
	case len(nodes) < 1:
		return nil, false, errors.Errorf("empty suffrage nodes")
	case len(nodes) < 2:
		return nodes, true, nil
	default:
		sort.Slice(nodes, func(i, j int) bool {
			return nodes[i].Address().String() < nodes[j].Address().String()
		})

		if p.sorted == nil {
			p.sorted = map[base.Height][]base.Node{}
		}

		p.sorted[height] = nodes

		return nodes, true, nil
	}
}

var errConcurrentRequestProposalFound = util.NewIDError("proposal found")

func ConcurrentRequestProposal(
	ctx context.Context,
	point base.Point,
	proposer base.Node,
	previousBlock util.Hash,
	client NetworkClient,
	cis []quicstream.ConnInfo,
	networkID base.NetworkID,
) (base.ProposalSignFact, bool, error) {
	worker, err := util.NewBaseJobWorker(ctx, int64(len(cis)))
	if err != nil {
		return nil, false, err
	}

	defer worker.Close()

	prlocked := util.EmptyLocked[base.ProposalSignFact]()

	go func() {
		defer worker.Done()

		for i := range cis {
			ci := cis[i]

			if err := worker.NewJob(func(ctx context.Context, _ uint64) error {
				switch pr, found, err := client.RequestProposal(ctx, ci, point, proposer.Address(), previousBlock); {
				case err != nil:
					return nil
				case !found:
					return nil
				case !isExpectedValidProposal(point, proposer, pr, networkID):
					return nil
				default:
					_ = prlocked.SetValue(pr)

					return errConcurrentRequestProposalFound.WithStack()
				}
			}); err != nil {
				return
			}
		}
	}()

	switch err := worker.Wait(); {
	case err == nil:
	case errors.Is(err, errConcurrentRequestProposalFound):
	default:
		return nil, false, err
	}

	switch pr, isempty := prlocked.Value(); {
	case isempty, pr == nil:
		return nil, false, nil
	default:
		return pr, true, nil
	}
}

func isExpectedValidProposal(
	point base.Point,
	proposer base.Node,
	pr base.ProposalSignFact,
	networkID base.NetworkID,
) bool {
	if err := pr.IsValid(networkID); err != nil {
		return false
	}

	switch {
	case !pr.Point().Equal(point):
		return false
	case !proposer.Address().Equal(pr.ProposalFact().Proposer()):
		return false
	case !proposer.Publickey().Equal(pr.Signs()[0].Signer()):
		return false
	default:
		return true
	}
}
