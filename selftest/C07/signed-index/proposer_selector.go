package isaac

import (
	"context"

	"github.com/pkg/errors"
	"github.com/spikeekips/mitum/base"
	"github.com/spikeekips/mitum/util"
)

// ProposerSelectFunc selects proposer between suffrage nodes. If failed to
// request proposal from remotes, local will be proposer.
type ProposerSelectFunc func(context.Context, base.Point, []base.Node, util.Hash) (base.Node, error)

type FuncProposerSelector struct {
	selectfunc func(base.Point, []base.Node, util.Hash) (base.Node, error)
}

func (p FuncProposerSelector) Select(
	_ context.Context, point base.Point, nodes []base.Node, previousBlock util.Hash,
) (base.Node, error) {
	return p.selectfunc(point, nodes, previousBlock)
}

type BlockBasedProposerSelector struct{}

func NewBlockBasedProposerSelector() BlockBasedProposerSelector {
	return BlockBasedProposerSelector{}
}

func (BlockBasedProposerSelector) Select(
	_ context.Context, point base.Point, nodes []base.Node, previousBlock util.Hash,
) (base.Node, error) {
	switch n := len(nodes); {
	case n < 1:
		return nil, errors.Errorf("empty suffrage nodes")
	case n < 2:
		return nodes[0], nil
	}

	var sum uint64

	for _, b := range previousBlock.Bytes() {
		sum += uint64(b)
	}

	sum += uint64(point.Height().Int64()) + point.Round().Uint64()

	return nodes[int(sum)%len(nodes)], nil
}

func NewFixedProposerSelector(
	selectfunc func(base.Point, []base.Node, util.Hash) (base.Node, error),
) FuncProposerSelector {
	return FuncProposerSelector{selectfunc: selectfunc}
}
