package isaacoperation

import (
	"context"
	"sort"
	"sync"

	"github.com/pkg/errors"
	"github.com/spikeekips/mitum/base"
	"github.com/spikeekips/mitum/isaac"
	"github.com/spikeekips/mitum/util"
)

type SuffrageCandidateProcessor struct {
	*base.BaseOperationProcessor
	suffrages      map[string]base.Node
	existings      map[string]base.SuffrageCandidateStateValue
	preprocessed   map[string]struct{} // revive:disable-line:nested-structs
	startheight    base.Height
	deadlineheight base.Height
}

func NewSuffrageCandidateProcessor(
	height base.Height,
	getStateFunc base.GetStateFunc,
	newPreProcessConstraintFunc base.NewOperationProcessorProcessFunc,
	newProcessConstraintFunc base.NewOperationProcessorProcessFunc,
	lifespan base.Height,
) (*SuffrageCandidateProcessor, error) {
	e := util.StringError("create new SuffrageCandidateProcessor")

	b, err := base.NewBaseOperationProcessor(
		height, getStateFunc, newPreProcessConstraintFunc, newProcessConstraintFunc)
	if err != nil {
		return nil, e.Wrap(err)
	}

	p := &SuffrageCandidateProcessor{
		BaseOperationProcessor: b,
		existings:              map[string]base.SuffrageCandidateStateValue{},
		suffrages:              map[string]base.Node{},
		preprocessed:           map[string]struct{}{},
		startheight:            height + 1,
		deadlineheight:         height + 1 + lifespan,
	}

	switch i, found, err := getStateFunc(isaac.SuffrageStateKey); {
	case err != nil:
		return nil, e.Wrap(err)
	case !found:
	case i == nil:
		return nil, e.Errorf("empty state returned")
	default:
		sufstv := i.Value().(base.SuffrageNodesStateValue) //nolint:forcetypeassert //...

		nodes := sufstv.Nodes()

		for i := range nodes {
			n := nodes[i]
			p.suffrages[n.Address().String()] = n
		}
	}

	switch _, candidates, err := isaac.LastCandidatesFromState(height, getStateFunc); {
	case err != nil:
		return nil, e.Wrap(err)
	case candidates == nil:
	default:
		for i := range candidates {
			n := candidates[i]

			p.existings[n.Address().String()] = n
		}
	}

	return p, nil
}

func (p *SuffrageCandidateProcessor) Close() error {
	if err := p.BaseOperationProcessor.Close(); err != nil {
		return err
	}

	clear(p.suffrages)
	clear(p.existings)
	clear(p.preprocessed)
	p.startheight = base.NilHeight
	p.deadlineheight = base.NilHeight

	return nil
}

func (p *SuffrageCandidateProcessor) PreProcess(
	ctx context.Context, op base.Operation, getStateFunc base.GetStateFunc) (
	context.Context, base.OperationProcessReasonError, error,
) {
	e := util.StringError("preprocess for SuffrageCandidateStateValue")

	fact := op.Fact().(SuffrageCandidateFact) //nolint:forcetypeassert //...

	if _, found := p.preprocessed[fact.Address().String()]; found {
		return ctx, base.NewBaseOperationProcessReasonf("candidate already preprocessed, %q", fact.Address()), nil
	}

	if _, found := p.suffrages[fact.Address().String()]; found {
		return ctx, base.NewBaseOperationProcessReasonf("candidate already in suffrage, %q", fact.Address()), nil
	}

	switch record, found := p.existings[fact.Address().String()]; {
	case !found:
		p.preprocessed[fact.Address().String()] = struct{}{}
	case p.Height() <= record.Deadline():
		p.preprocessed[fact.Address().String()] = struct{}{}

		return ctx, base.NewBaseOperationProcessReasonf("already candidate up to, %d", record.Deadline()), nil
	}

	switch reasonerr, err := p.PreProcessConstraintFunc(ctx, op, getStateFunc); {
	case err != nil:
		return ctx, nil, e.Wrap(err)
	case reasonerr != nil:
		return ctx, reasonerr, nil
	}

	return ctx, nil, nil
}

func (p *SuffrageCandidateProcessor) Process(ctx context.Context, op base.Operation, getStateFunc base.GetStateFunc) (
	[]base.StateMergeValue, base.OperationProcessReasonError, error,
) {
	e := util.StringError("process for SuffrageCandidateStateValue")

	switch reasonerr, err := p.ProcessConstraintFunc(ctx, op, getStateFunc); {
	case err != nil:
		return nil, nil, e.Wrap(err)
	case reasonerr != nil:
		return nil, reasonerr, nil
	}

	fact := op.Fact().(SuffrageCandidateFact) //nolint:forcetypeassert //...

	node := isaac.NewSuffrageCandidateStateValue(
		isaac.NewNode(fact.Publickey(), fact.Address()),
		p.startheight,
		p.deadlineheight,
	)

	return []base.StateMergeValue{
		base.NewBaseStateMergeValue(
			isaac.SuffrageCandidateStateKey,
			isaac.NewSuffrageCandidatesStateValue([]base.SuffrageCandidateStateValue{node}),
			func(height base.Height, st base.State) base.StateValueMerger {
				return NewSuffrageCandidatesStateValueMerger(height, st)
			},
		),
	}, nil, nil
}

type SuffrageCandidatesStateValueMerger struct {
	*base.BaseStateValueMerger
	existings []base.SuffrageCandidateStateValue
	added     []base.SuffrageCandidateStateValue
	removes   []base.Address
	l         sync.Mutex
}

func NewSuffrageCandidatesStateValueMerger(height base.Height, st base.State) *SuffrageCandidatesStateValueMerger {
	s := &SuffrageCandidatesStateValueMerger{
		BaseStateValueMerger: base.NewBaseStateValueMerger(height, isaac.SuffrageCandidateStateKey, st),
	}

	if st != nil {
		if v := st.Value(); v != nil {
			s.existings = v.(base.SuffrageCandidatesStateValue).Nodes() //nolint:forcetypeassert //...
		}
	}

	return s
}

func (s *SuffrageCandidatesStateValueMerger) Merge(value base.StateValue, op util.Hash) error {
	s.l.Lock()
	defer s.l.Unlock()

	switch t := value.(type) {
	case isaac.SuffrageCandidatesStateValue:
		s.added = append(s.added, t.Nodes()...)
	case suffrageRemoveCandidateStateValue:
		s.removes = append(s.removes, t.Nodes()...)
	default:
		return errors.Errorf("unknown SuffrageCandidatesStateValue, %T", value)
	}

	s.AddOperation(op)

	return nil
}

func (s *SuffrageCandidatesStateValueMerger) CloseValue() (base.State, error) {
	s.l.Lock()
	defer s.l.Unlock()

	newvalue, err := s.closeValue()
	if err != nil {
		return nil, errors.WithMessage(err, "close SuffrageCandidatesStateValueMerger")
	}

	s.BaseStateValueMerger.SetValue(newvalue)

	return s.BaseStateValueMerger.CloseValue()
}

func (s *SuffrageCandidatesStateValueMerger) closeValue() (base.StateValue, error) {
	if len(s.removes) < 1 && len(s.added) < 1 {
		return nil, base.ErrIgnoreStateValue.Errorf("empty newly added or removes nodes")
	}

	existings := s.existings
	if len(s.removes) > 0 {
		existings = util.Filter2Slices(
			existings,
			s.removes,
			func(x base.SuffrageCandidateStateValue, y base.Address) bool {
				return x.Address().Equal(y)
			},
		)
	}

	if len(s.added) > 0 {
		// NOTE filter new nodes
		existings = util.Filter2Slices(existings, s.added, func(x, y base.SuffrageCandidateStateValue) bool {
			return x.Address().Equal(y.Address())
		})
	}

	_ = sort.Slice

	newnodes := make([]base.SuffrageCandidateStateValue, len(existings)+len(s.added))
	copy(newnodes, existings)
	copy(newnodes[len(existings):], s.added)

	return isaac.NewSuffrageCandidatesStateValue(newnodes), nil
}

type suffrageRemoveCandidateStateValue struct {
	nodes []base.Address
}

func newSuffrageRemoveCandidateStateValue(nodes []base.Address) suffrageRemoveCandidateStateValue {
	return suffrageRemoveCandidateStateValue{
		nodes: nodes,
	}
}

func (suffrageRemoveCandidateStateValue) HashBytes() []byte {
	return nil
}

func (s suffrageRemoveCandidateStateValue) IsValid([]byte) error {
	if err := util.CheckIsValiderSlice(nil, false, s.nodes); err != nil {
		return util.ErrInvalid.WithMessage(err, "invalid suffrageRemoveCandidateStateValue")
	}

	return nil
}

func (s suffrageRemoveCandidateStateValue) Nodes() []base.Address {
	return s.nodes
}
