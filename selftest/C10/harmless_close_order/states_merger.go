package isaacblock

import (
	"context"
	"sort"

	"github.com/pkg/errors"
	"github.com/spikeekips/mitum/base"
	"github.com/spikeekips/mitum/util"
)

type StatesMerger interface {
	SetStates(_ context.Context, opindex uint64, _ []base.StateMergeValue, operationfacthash util.Hash) error
	CloseStates(
		_ context.Context,
		beforeClose func(keyscount uint64) error,
		oneState func(newState base.State, total, index uint64) error,
	) error
	Len() int
	Close() error
}

type DefaultStatesMerger struct {
	getStateFunc base.GetStateFunc
	stvmmap      *util.ShardedMap[string, base.StateValueMerger]
	height       base.Height
	workersize   int64
}

func NewDefaultStatesMerger(
	height base.Height,
	getStateFunc base.GetStateFunc,
	workersize int64,
) *DefaultStatesMerger {
	stvmmap, _ := util.NewShardedMap[string, base.StateValueMerger](1<<9, nil) //nolint:mnd //...

	return &DefaultStatesMerger{
		height:       height,
		stvmmap:      stvmmap,
		getStateFunc: getStateFunc,
		workersize:   workersize,
	}
}

func (sm *DefaultStatesMerger) SetStates(
	ctx context.Context,
	index uint64,
	stvms []base.StateMergeValue,
	operation util.Hash,
) error {
	for i := range stvms {
		if err := sm.setState(ctx, stvms[i], index, operation); err != nil {
			return err
		}
	}

	return nil
}

func (sm *DefaultStatesMerger) CloseStates(
	ctx context.Context,
	beforeClose func(keyscount uint64) error,
	oneState func(newState base.State, total, index uint64) error,
) error {
	if sm.stvmmap.Len() < 1 {
		return beforeClose(0)
	}

	sortedkeys := sm.sortStateKeys()

	total := uint64(len(sortedkeys))

	if err := beforeClose(total); err != nil {
		return err
	}

	worker, err := util.NewBaseJobWorker(ctx, sm.workersize)
	if err != nil {
		return err
	}

	defer worker.Close()

	go func() {
		defer worker.Done()

		for n := len(sortedkeys) - 1; n >= 0; n-- {
			stvm, _ := sm.stvmmap.Value(sortedkeys[n])

			index := uint64(n)

			if err := worker.NewJob(func(context.Context, uint64) error {
				switch newst, err := stvm.CloseValue(); {
				case newst == nil, errors.Is(err, base.ErrIgnoreStateValue):
					return nil
				case err != nil:
					return err
				default:
					return oneState(newst, total, index)
				}
			}); err != nil {
				break
			}
		}
	}()

	return worker.Wait()
}

func (sm *DefaultStatesMerger) Len() int {
	return sm.stvmmap.Len()
}

func (sm *DefaultStatesMerger) Close() error {
	if sm.stvmmap.Len() < 1 {
		return nil
	}

	worker, err := util.NewBaseJobWorker(context.Background(), sm.workersize)
	if err != nil {
		return err
	}

	defer worker.Close()

	go func() {
		defer worker.Done()

		sm.stvmmap.Traverse(func(_ string, merger base.StateValueMerger) bool {
			return worker.NewJob(func(context.Context, uint64) error {
				_ = merger.Close()

				return nil
			}) == nil
		})
	}()

	_ = worker.Wait()

	sm.stvmmap.Close()

	return nil
}

func (sm *DefaultStatesMerger) setState(
	_ context.Context,
	stvm base.StateMergeValue,
	_ uint64,
	operation util.Hash,
) error {
	return sm.stvmmap.GetOrCreate(
		stvm.Key(),
		func(i base.StateValueMerger, _ bool) error {
			return errors.WithMessage(
				i.Merge(stvm.Value(), operation),
				"merge",
			)
		},
		func() (base.StateValueMerger, error) {
			var st base.State

			switch j, found, err := sm.getStateFunc(stvm.Key()); {
			case err != nil:
				return nil, err
			case found:
				st = j
			}

			return stvm.Merger(sm.height, st), nil
		},
	)
}

func (sm *DefaultStatesMerger) sortStateKeys() []string {
	var sortedkeys []string
	sm.stvmmap.Traverse(func(k string, _ base.StateValueMerger) bool {
		sortedkeys = append(sortedkeys, k)

		return true
	})

	if len(sortedkeys) > 0 {
		sort.Strings(sortedkeys)
	}

	return sortedkeys
}
