package isaacblock

import (
	"context"
	"sync"
	"sync/atomic"

	"github.com/pkg/errors"
	"github.com/rs/zerolog"
	"github.com/spikeekips/mitum/base"
	"github.com/spikeekips/mitum/isaac"
	"github.com/spikeekips/mitum/util"
	"github.com/spikeekips/mitum/util/fixedtree"
	"github.com/spikeekips/mitum/util/logging"
)

var verifNextSlot int64

type FSWriter interface {
	SetProposal(context.Context, base.ProposalSignFact) error
	SetOperation(_ context.Context, total, index uint64, _ base.Operation) error
	SetOperationsTree(context.Context, fixedtree.Tree) error
	SetState(_ context.Context, total, index uint64, _ base.State) error
	SetStatesTree(context.Context, fixedtree.Tree) error
	SetManifest(context.Context, base.Manifest) error
	SetINITVoteproof(context.Context, base.INITVoteproof) error
	SetACCEPTVoteproof(context.Context, base.ACCEPTVoteproof) error
	Save(context.Context) (base.BlockMap, error)
	Cancel() error
}

type Writer struct {
	*logging.Logging
	manifest      base.Manifest
	proposal      base.ProposalSignFact
	opstree       fixedtree.Tree
	db            isaac.BlockWriteDatabase
	fswriter      FSWriter
	mergeDatabase func(isaac.BlockWriteDatabase) error
	saveWorker    func(bool) *util.BaseJobWorker
	opstreeg      *fixedtree.Writer
	getStateFunc  base.GetStateFunc
	statesMerger  StatesMerger
	ststree       fixedtree.Tree
	workersize    int64
	l             sync.RWMutex
}

func NewWriter(
	proposal base.ProposalSignFact,
	getStateFunc base.GetStateFunc,
	db isaac.BlockWriteDatabase,
	mergeDatabase func(isaac.BlockWriteDatabase) error,
	fswriter FSWriter,
	workersize int64,
) *Writer {
	statesMerger := NewDefaultStatesMerger( //revive:disable-line:modifies-parameter
		proposal.ProposalFact().Point().Height(),
		getStateFunc,
		workersize,
	)

	return &Writer{
		Logging: logging.NewLogging(func(lctx zerolog.Context) zerolog.Context {
			return lctx.Str("module", "block-writer")
		}),
		proposal:      proposal,
		getStateFunc:  getStateFunc,
		db:            db,
		mergeDatabase: mergeDatabase,
		fswriter:      fswriter,
		workersize:    workersize,
		statesMerger:  statesMerger,
		saveWorker: func() func(bool) *util.BaseJobWorker {
			var ew *util.BaseJobWorker
			var saveWorkerOnce sync.Once

			return func(create bool) *util.BaseJobWorker {
				if !create {
					return ew
				}

				saveWorkerOnce.Do(func() {
					ew, _ = util.NewBaseJobWorker(context.Background(), workersize)
				})

				return ew
			}
		}(),
	}
}

func (w *Writer) SetOperationsSize(n uint64) {
	w.l.Lock()
	defer w.l.Unlock()

	opstreeg, err := fixedtree.NewWriter(base.OperationFixedtreeHint, n)
	if err != nil {
		return
	}

	w.opstreeg = opstreeg
	atomic.StoreInt64(&verifNextSlot, 0)
}

func (w *Writer) SetProcessResult( // revive:disable-line:flag-parameter
	_ context.Context,
	index uint64,
	op, facthash util.Hash,
	instate bool,
	errorreason base.OperationProcessReasonError,
) error {
	e := util.StringError("set operation")

	if op != nil {
		if err := w.saveWorker(true).NewJob(func(context.Context, uint64) error {
			return w.db.SetOperations([]util.Hash{op})
		}); err != nil {
			return e.Wrap(err)
		}
	}

	var msg string
	if errorreason != nil {
		msg = errorreason.Msg()
	}

	var node base.OperationFixedtreeNode
	if instate {
		node = base.NewInStateOperationFixedtreeNode(facthash, msg)
	} else {
		node = base.NewNotInStateOperationFixedtreeNode(facthash, msg)
	}

	if err := w.opstreeg.Add(uint64(atomic.AddInt64(&verifNextSlot, 1)-1)%uint64(w.opstreeg.Len()), node); err != nil {
		return e.WithMessage(err, "set operation")
	}

	return nil
}

func (w *Writer) SetStates(
	ctx context.Context, index uint64, states []base.StateMergeValue, operation base.Operation,
) error {
	e := util.StringError("set states")

	if w.proposal == nil {
		return e.Errorf("not yet written")
	}

	if err := w.statesMerger.SetStates(ctx, index, states, operation.Fact().Hash()); err != nil {
		return e.Wrap(err)
	}

	if err := w.saveWorker(true).NewJob(func(ctx context.Context, _ uint64) error {
		return w.fswriter.SetOperation(ctx, uint64(w.opstreeg.Len()), index, operation)
	}); err != nil {
		return e.Wrap(err)
	}

	return nil
}

func (w *Writer) closeStateValues(
	ctx context.Context,
	catchState func(base.State),
) error {
	defer logging.TimeElapsed()(w.Log().Debug(), "close state values")

	if w.statesMerger.Len() < 1 {
		return nil
	}

	e := util.StringError("close state values")

	var tg *fixedtree.Writer

	switch i, err := w.statesMergerClose(ctx, catchState); {
	case err != nil:
		return e.Wrap(err)
	default:
		tg = i
	}

	switch tr, err := tg.Tree(); {
	case err != nil:
		return e.Wrap(err)
	default:
		w.ststree = tr

		return nil
	}
}

func (w *Writer) statesMergerClose(
	ctx context.Context,
	catchState func(base.State),
) (tg *fixedtree.Writer, _ error) {
	defer logging.TimeElapsed()(w.Log().Debug(), "close states merger")

	if err := w.statesMerger.CloseStates(
		ctx,
		func(keyscount uint64) error {
			if keyscount < 1 {
				return nil
			}

			switch i, err := fixedtree.NewWriter(base.StateFixedtreeHint, keyscount); {
			case err != nil:
				return err
			default:
				tg = i

				return nil
			}
		},
		func(st base.State, total, index uint64) error {
			catchState(st)

			if _, ok := st.(base.StateValueMerger); ok {
				return errors.Errorf("expect pure State, not StateValueMerger, %T", st)
			}

			if err := tg.Add(index, fixedtree.NewBaseNode(st.Hash().String())); err != nil {
				return err
			}

			return w.saveWorker(true).NewJob(func(ctx context.Context, _ uint64) error {
				if err := w.fswriter.SetState(ctx, total, index, st); err != nil {
					return err
				}

				return w.db.SetStates([]base.State{st})
			})
		},
	); err != nil {
		return nil, err
	}

	return tg, nil
}

func (w *Writer) Manifest(ctx context.Context, previous base.Manifest) (base.Manifest, error) {
	w.l.Lock()
	defer w.l.Unlock()

	e := util.StringError("make manifest")

	if w.proposal == nil || (previous == nil && w.proposal.Point().Height() > base.GenesisHeight) {
		return nil, e.Errorf("not yet written")
	}

	var opstreeroot util.Hash

	if w.opstreeg != nil {
		switch tr, err := w.opstreeg.Tree(); {
		case err != nil:
			return nil, e.Wrap(err)
		default:
			w.opstree = tr

			if w.opstree.Len() > 0 {
				opstreeroot = tr.Root()
			}
		}
	}

	var suffrage, previousHash util.Hash

	if w.proposal.Point().Height() > base.GenesisHeight {
		suffrage = previous.Suffrage()
		previousHash = previous.Hash()
	}

	if err := w.closeStateValues(ctx, func(st base.State) {
		if st.Key() == isaac.SuffrageStateKey {
			suffrage = st.Hash()
		}
	}); err != nil {
		return nil, e.Wrap(err)
	}

	var ststreeroot util.Hash
	if w.ststree.Len() > 0 {
		ststreeroot = w.ststree.Root()
	}

	if w.manifest == nil {
		w.manifest = isaac.NewManifest(
			w.proposal.Point().Height(),
			previousHash,
			w.proposal.Fact().Hash(),
			opstreeroot,
			ststreeroot,
			suffrage,
			w.proposal.ProposalFact().ProposedAt(),
		)

		if err := w.saveWorker(true).NewJob(func(ctx context.Context, _ uint64) error {
			return w.fswriter.SetManifest(ctx, w.manifest)
		}); err != nil {
			return nil, e.Wrap(err)
		}
	}

	return w.manifest, nil
}

func (w *Writer) SetINITVoteproof(_ context.Context, vp base.INITVoteproof) error {
	if err := w.saveWorker(true).NewJob(func(ctx context.Context, _ uint64) error {
		return w.fswriter.SetINITVoteproof(ctx, vp)
	}); err != nil {
		return errors.Wrap(err, "set init voteproof")
	}

	return nil
}

func (w *Writer) SetACCEPTVoteproof(_ context.Context, vp base.ACCEPTVoteproof) error {
	if err := w.saveWorker(true).NewJob(func(ctx context.Context, _ uint64) error {
		return w.fswriter.SetACCEPTVoteproof(ctx, vp)
	}); err != nil {
		return errors.Wrap(err, "set accept voteproof")
	}

	return nil
}

func (w *Writer) Save(ctx context.Context) (base.BlockMap, error) {
	w.l.Lock()
	defer w.l.Unlock()

	e := util.StringError("save")

	if err := w.waitSaveWorker(ctx); err != nil {
		return nil, e.Wrap(err)
	}

	var m base.BlockMap

	switch i, err := w.fswriter.Save(ctx); {
	case err != nil:
		return nil, e.Wrap(err)
	default:
		if err := w.db.SetBlockMap(i); err != nil {
			return nil, e.Wrap(err)
		}

		m = i
	}

	if st := w.db.SuffrageState(); st != nil {
		// NOTE save suffrageproof
		proof, err := w.ststree.Proof(st.Hash().String())
		if err != nil {
			return nil, e.WithMessage(err, "make proof of suffrage state")
		}

		sufproof := NewSuffrageProof(m, st, proof)

		if err := w.db.SetSuffrageProof(sufproof); err != nil {
			return nil, e.Wrap(err)
		}
	}

	if err := w.mergeDatabase(w.db); err != nil {
		return nil, e.Wrap(err)
	}

	if err := w.close(); err != nil {
		return nil, e.Wrap(err)
	}

	return m, nil
}

func (w *Writer) Cancel() error {
	w.l.Lock()
	defer w.l.Unlock()

	e := util.StringError("cancel Writer")

	if ew := w.saveWorker(false); ew != nil {
		ew.Close()
	}

	if err := w.fswriter.Cancel(); err != nil {
		return e.Wrap(err)
	}

	if err := w.db.Cancel(); err != nil {
		return e.Wrap(err)
	}

	return w.close()
}

func (w *Writer) close() error {
	w.manifest = nil
	w.proposal = nil
	w.db = nil
	w.fswriter = nil
	w.mergeDatabase = nil
	w.opstreeg = nil
	w.getStateFunc = nil
	_ = w.statesMerger.Close()
	w.ststree = fixedtree.Tree{}

	return nil
}

func (w *Writer) waitSaveWorker(ctx context.Context) error {
	saveWorker := w.saveWorker(false)
	if saveWorker == nil {
		return nil
	}

	defer saveWorker.Close()

	if err := w.saveWorker(true).NewJob(func(ctx context.Context, _ uint64) error {
		return w.fswriter.SetProposal(ctx, w.proposal)
	}); err != nil {
		return errors.Wrap(err, "set proposal")
	}

	saveWorker.Done()

	if err := saveWorker.Wait(); err != nil {
		return err
	}

	if err := w.db.Write(); err != nil {
		return err
	}

	if w.opstree.Len() > 0 {
		if err := w.fswriter.SetOperationsTree(ctx, w.opstree); err != nil {
			return err
		}
	}

	if w.ststree.Len() > 0 {
		if err := w.fswriter.SetStatesTree(ctx, w.ststree); err != nil {
			return err
		}
	}

	return nil
}
