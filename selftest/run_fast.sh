#!/bin/sh
# usage: selftest/run_fast.sh Cxx harnesscmd [extra harness args]  -- oracle only (no Coq): builds the harness with each overlay, prints failure classes
cd "$(dirname "$0")/.." || exit 2
P=$1; H=$2; shift 2
export GOFLAGS=-mod=mod GOPROXY=off GOSUMDB=off GOTOOLCHAIN=local CGO_ENABLED=0
for d in selftest/$P/*/; do
  [ -f "$d/overlay.json" ] || continue
  n=$(basename "$d"); out=work/selftest-$P-$n; rm -rf "$out"; mkdir -p "$out"
  if ! (cd harness && go build -tags "test verif" -overlay "../$d/overlay.json" -o "../$out/h" ./cmd/$H) 2>"$out/build.log"; then echo "$n: BUILD FAILED"; head -5 "$out/build.log"; continue; fi
  "$out/h" -seed 1 -tier quick -out "$out" "$@" >/dev/null 2>&1
  python3 - "$out/result.json" "$n" <<'PY'
import json,sys,collections
r=json.load(open(sys.argv[1])); c=collections.Counter(f['class'] for f in r['failures'])
print("%s: oracle_failures=%d %s" % (sys.argv[2], len(r['failures']), dict(c)))
PY
done
