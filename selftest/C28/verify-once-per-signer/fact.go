package base

import (
	"math"

	"github.com/spikeekips/mitum/util"
)

const MaxTokenSize = math.MaxUint16

type Fact interface {
	util.IsValider
	util.Hasher
	Token() Token
}

type Facter interface {
	Fact() Fact
}

type SignFact interface {
	util.HashByter
	util.IsValider
	Fact() Fact
	Signs() []Sign
}

type NodeSignFact interface {
	SignFact
	NodeSigns() []NodeSign
}

type Token []byte

type Tokener interface {
	Token() Token
}

type TokenSetter interface {
	SetToken(Token) error
}

func (t Token) IsValid([]byte) error {
	e := util.ErrInvalid.Errorf("invalid Token")

	switch l := len(t); {
	case l < 1:
		return e.Errorf("empty")
	case l > MaxTokenSize:
		return e.Errorf("too long; %d > %d", l, MaxTokenSize)
	}

	return nil
}

func IsValidFact(fact Fact, b []byte) error {
	if err := util.CheckIsValiders(b, false,
		fact.Hash(),
		fact.Token(),
	); err != nil {
		return util.ErrInvalid.WithMessage(err, "invalid Fact")
	}

	return nil
}

func IsValidSignFact(sf SignFact, networkID []byte) error {
	e := util.ErrInvalid.Errorf("invalid SignFact")

	sfs := sf.Signs()
	if len(sfs) < 1 {
		return e.Errorf("empty signs")
	}

	bs := make([]util.IsValider, len(sf.Signs())+1)
	bs[0] = sf.Fact()

	for i := range sfs {
		bs[i+1] = sfs[i]
	}

	if err := util.CheckIsValiders(networkID, false, bs...); err != nil {
		return e.WithMessage(err, "invalid SignFact")
	}

	// NOTE caller should check the duplication of Signs

	seen := map[string]bool{}

	for i := range sfs {
		k := sfs[i].Signer().String()
		if seen[k] {
			continue
		}

		seen[k] = true

		if err := sfs[i].Verify(networkID, sf.Fact().Hash().Bytes()); err != nil {
			return e.WithMessage(err, "verify sign")
		}
	}

	return nil
}
