package isaacoperation

import (
	"bytes"
	"context"

	"github.com/spikeekips/mitum/base"
	"github.com/spikeekips/mitum/isaac"
	"github.com/spikeekips/mitum/util"
	"github.com/spikeekips/mitum/util/hint"
	"github.com/spikeekips/mitum/util/valuehash"
)

var (
	SuffrageJoinFactHint        = hint.MustNewHint("suffrage-join-fact-v0.0.1")
	SuffrageJoinHint            = hint.MustNewHint("suffrage-join-operation-v0.0.1")
	SuffrageGenesisJoinFactHint = hint.MustNewHint("suffrage-genesis-join-fact-v0.0.1")
	SuffrageGenesisJoinHint     = hint.MustNewHint("suffrage-genesis-join-operation-v0.0.1")
)

type SuffrageJoinFact struct {
	candidate base.Address
	base.BaseFact
	start base.Height
}

func NewSuffrageJoinFact(
	token base.Token,
	candidate base.Address,
	start base.Height,
) SuffrageJoinFact {
	fact := SuffrageJoinFact{
		BaseFact:  base.NewBaseFact(SuffrageJoinFactHint, token),
		candidate: candidate,
		start:     start,
	}

	fact.SetHash(fact.hash())

	return fact
}

func (fact SuffrageJoinFact) IsValid([]byte) error {
	e := util.ErrInvalid.Errorf("invalid SuffrageJoinFact")

	recomputed := fact.hash()
	if !fact.Hash().Equal(recomputed) {
		return e.Errorf("hash does not match")
	}

	if err := util.CheckIsValiders(nil, false, fact.BaseFact, fact.candidate, fact.start); err != nil {
		return e.Wrap(err)
	}

	return nil
}

func (fact SuffrageJoinFact) Candidate() base.Address {
	return fact.candidate
}

func (fact SuffrageJoinFact) Start() base.Height {
	return fact.start
}

func (fact SuffrageJoinFact) hash() util.Hash {
	return valuehash.NewSHA256(util.ConcatByters(
		util.BytesToByter(fact.Token()),
		fact.candidate,
		fact.start,
	))
}

type SuffrageGenesisJoinFact struct {
	nodes []base.Node
	base.BaseFact
}

func NewSuffrageGenesisJoinFact(
	nodes []base.Node,
	networkID base.NetworkID,
) SuffrageGenesisJoinFact {
	fact := SuffrageGenesisJoinFact{
		BaseFact: base.NewBaseFact(SuffrageGenesisJoinFactHint, base.Token(networkID)),
		nodes:    nodes,
	}

	fact.SetHash(fact.hash())

	return fact
}

func (fact SuffrageGenesisJoinFact) IsValid(networkID []byte) error {
	e := util.ErrInvalid.Errorf("invalid SuffrageGenesisJoinFact")

	if len(fact.nodes) < 1 {
		return e.Errorf("empty nodes")
	}

	vs := make([]util.IsValider, len(fact.nodes)+1)
	vs[0] = fact.BaseFact

	for i := range fact.nodes {
		vs[i+1] = fact.nodes[i]
	}

	if err := util.CheckIsValiders(nil, false, vs...); err != nil {
		return e.Wrap(err)
	}

	if util.IsDuplicatedSlice(fact.nodes, func(i base.Node) (bool, string) {
		if i == nil {
			return true, ""
		}

		return true, i.Address().String()
	}) {
		return e.Errorf("duplicated node found")
	}

	if !bytes.Equal(fact.BaseFact.Token(), networkID) {
		return e.Errorf("wrong token")
	}

	if !fact.Hash().Equal(fact.hash()) {
		return e.Errorf("hash does not match")
	}

	return nil
}

func (fact SuffrageGenesisJoinFact) Nodes() []base.Node {
	return fact.nodes
}

func (fact SuffrageGenesisJoinFact) hash() util.Hash {
	return valuehash.NewSHA256(util.ConcatByters(
		util.BytesToByter(fact.Token()),
		util.DummyByter(func() []byte {
			var b bytes.Buffer

			for i := range fact.nodes {
				_, _ = b.Write(fact.nodes[i].HashBytes())
			}

			return b.Bytes()
		}),
	))
}

type SuffrageJoin struct {
	base.BaseNodeOperation
}

func NewSuffrageJoin(fact SuffrageJoinFact) SuffrageJoin {
	return SuffrageJoin{
		BaseNodeOperation: base.NewBaseNodeOperation(SuffrageJoinHint, fact),
	}
}

func (op *SuffrageJoin) SetToken(t base.Token) error {
	fact := op.Fact().(SuffrageJoinFact) //nolint:forcetypeassert //...

	if err := fact.SetToken(t); err != nil {
		return err
	}

	fact.SetHash(fact.hash())

	op.BaseNodeOperation.SetFact(fact)

	return nil
}

func (op SuffrageJoin) IsValid(networkID []byte) error {
	e := util.ErrInvalid.Errorf("invalid SuffrageJoin")

	if err := op.BaseNodeOperation.IsValid(networkID); err != nil {
		return e.Wrap(err)
	}

	var fact SuffrageJoinFact
	if err := util.SetInterfaceValue(op.Fact(), &fact); err != nil {
		return e.Wrap(err)
	}

	var foundsigner bool

	sfs := op.Signs()

	for i := range sfs {
		ns := sfs[i].(base.NodeSign) //nolint:forcetypeassert //...

		if !ns.Node().Equal(fact.Candidate()) {
			continue
		}

		foundsigner = true

		break
	}

	if !foundsigner {
		return e.Errorf("not signed by candidate")
	}

	return nil
}

// SuffrageGenesisJoin is only for used for genesis block
type SuffrageGenesisJoin struct {
	base.BaseOperation
}

func NewSuffrageGenesisJoin(fact SuffrageGenesisJoinFact) SuffrageGenesisJoin {
	return SuffrageGenesisJoin{
		BaseOperation: base.NewBaseOperation(SuffrageGenesisJoinHint, fact),
	}
}

func (op SuffrageGenesisJoin) IsValid(networkID []byte) error {
	e := util.ErrInvalid.Errorf("invalid SuffrageGenesisJoin")

	if err := op.BaseOperation.IsValid(networkID); err != nil {
		return e.Wrap(err)
	}

	if len(op.Signs()) > 1 {
		return e.Errorf("multiple signs found")
	}

	if _, err := util.AssertInterfaceValue[SuffrageGenesisJoinFact](op.Fact()); err != nil {
		return e.Wrap(err)
	}

	return nil
}

func (SuffrageGenesisJoin) PreProcess(
	ctx context.Context, getStateFunc base.GetStateFunc,
) (context.Context, base.OperationProcessReasonError, error) {
	switch _, found, err := getStateFunc(isaac.SuffrageStateKey); {
	case err != nil:
		return ctx, base.NewBaseOperationProcessReasonf("check suffrage state: %s", err), nil
	case found:
		return ctx, base.NewBaseOperationProcessReason("suffrage state already exists"), nil
	default:
		return ctx, nil, nil
	}
}

func (op SuffrageGenesisJoin) Process(context.Context, base.GetStateFunc) (
	[]base.StateMergeValue, base.OperationProcessReasonError, error,
) {
	fact := op.Fact().(SuffrageGenesisJoinFact) //nolint:forcetypeassert //...

	fnodes := fact.Nodes()
	nodes := make([]base.SuffrageNodeStateValue, len(fnodes))

	for i := range fnodes {
		nodes[i] = isaac.NewSuffrageNodeStateValue(fnodes[i], base.GenesisHeight+1)
	}

	return []base.StateMergeValue{
		base.NewBaseStateMergeValue(
			isaac.SuffrageStateKey,
			isaac.NewSuffrageNodesStateValue(base.GenesisHeight, nodes),
			nil,
		),
	}, nil, nil
}
