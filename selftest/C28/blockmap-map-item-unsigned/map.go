package isaacblock

import (
	"bytes"
	"sort"

	"github.com/pkg/errors"
	"github.com/spikeekips/mitum/base"
	"github.com/spikeekips/mitum/util"
	"github.com/spikeekips/mitum/util/hint"
)

var BlockMapHint = hint.MustNewHint("blockmap-v0.0.1")

type BlockMap struct {
	manifest base.Manifest
	items    *util.SingleLockedMap[base.BlockItemType, base.BlockMapItem]
	base.BaseNodeSign
	hint.BaseHinter
}

func NewBlockMap() BlockMap {
	return BlockMap{
		BaseHinter: hint.NewBaseHinter(BlockMapHint),
		items:      util.NewSingleLockedMap[base.BlockItemType, base.BlockMapItem](),
	}
}

func (m BlockMap) IsValid(b []byte) error {
	e := util.ErrInvalid.Errorf("invalid blockmap")
	if err := m.BaseHinter.IsValid(BlockMapHint.Type().Bytes()); err != nil {
		return e.Wrap(err)
	}

	if err := util.CheckIsValiders(nil, false, m.manifest, m.BaseNodeSign); err != nil {
		return e.Wrap(err)
	}

	if err := m.checkItems(); err != nil {
		return e.Wrap(err)
	}

	var vs []util.IsValider

	m.items.Traverse(func(_ base.BlockItemType, v base.BlockMapItem) bool {
		if v != nil {
			vs = append(vs, v)
		}

		return true
	})

	if err := util.CheckIsValiderSlice(nil, true, vs); err != nil {
		return e.WithMessage(err, "invalid item found")
	}

	if err := m.BaseNodeSign.Verify(b, m.signedBytes()); err != nil {
		return e.Wrap(err)
	}

	return nil
}

func (m BlockMap) Manifest() base.Manifest {
	return m.manifest
}

func (m *BlockMap) SetManifest(manifest base.Manifest) {
	m.manifest = manifest
}

func (m BlockMap) Item(t base.BlockItemType) (base.BlockMapItem, bool) {
	switch i, found := m.items.Value(t); {
	case !found, i == nil:
		return nil, false
	default:
		return i, true
	}
}

func (m *BlockMap) SetItem(item base.BlockMapItem) error {
	e := util.StringError("set block item")

	if err := item.IsValid(nil); err != nil {
		return e.Wrap(err)
	}

	_ = m.items.SetValue(item.Type(), item)

	return nil
}

func (m BlockMap) Items(f func(base.BlockMapItem) bool) {
	m.items.Traverse(func(_ base.BlockItemType, v base.BlockMapItem) bool {
		if v == nil {
			return true
		}

		return f(v)
	})
}

func (m *BlockMap) Sign(node base.Address, priv base.Privatekey, networkID base.NetworkID) error {
	sign, err := base.NewBaseNodeSignFromBytes(node, priv, networkID, m.signedBytes())
	if err != nil {
		return errors.Wrap(err, "sign blockmap")
	}

	m.BaseNodeSign = sign

	return nil
}

func (m BlockMap) checkItems() error {
	check := func(t base.BlockItemType) bool {
		switch i, found := m.items.Value(t); {
		case !found, i == nil:
			return false
		default:
			return true
		}
	}

	if !check(base.BlockItemProposal) {
		return util.ErrInvalid.Errorf("empty proposal")
	}

	if !check(base.BlockItemVoteproofs) {
		return util.ErrInvalid.Errorf("empty voteproofs")
	}

	if m.manifest.OperationsTree() != nil {
		if !check(base.BlockItemOperationsTree) {
			return util.ErrInvalid.Errorf("empty operations tree")
		}
	}

	if m.manifest.StatesTree() != nil {
		if !check(base.BlockItemStatesTree) {
			return util.ErrInvalid.Errorf("empty states tree")
		}
	}

	return nil
}

func (BlockMap) Bytes() []byte {
	return nil
}

func (m BlockMap) signedBytes() []byte {
	var ts [][]byte

	m.items.Traverse(func(_ base.BlockItemType, v base.BlockMapItem) bool {
		if v != nil && v.Type() != base.BlockItemMap {
			// NOTE only checksum will be included in signature
			ts = append(ts, []byte(v.Checksum()))
		}

		return true
	})

	if len(ts) > 0 {
		sort.Slice(ts, func(i, j int) bool {
			return bytes.Compare(ts[i], ts[j]) < 0
		})
	}

	return util.ConcatByters(
		m.manifest.Hash(),
		util.BytesToByter(util.ConcatBytesSlice(ts...)),
	)
}

type BlockMapItem struct {
	t        base.BlockItemType
	checksum string
}

func NewBlockMapItem(t base.BlockItemType, checksum string) BlockMapItem {
	return BlockMapItem{
		t:        t,
		checksum: checksum,
	}
}

func (item BlockMapItem) IsValid([]byte) error {
	e := util.ErrInvalid.Errorf("invalid BlockMapItem")

	if err := item.t.IsValid(nil); err != nil {
		return e.Wrap(err)
	}

	if n := len(item.checksum); n < 1 {
		return e.Errorf("empty checksum")
	}

	return nil
}

func (item BlockMapItem) Type() base.BlockItemType {
	return item.t
}

func (item BlockMapItem) Checksum() string {
	return item.checksum
}
