package isaac

import (
	"time"

	"github.com/pkg/errors"
	"github.com/spikeekips/mitum/base"
	"github.com/spikeekips/mitum/util"
	"github.com/spikeekips/mitum/util/hint"
	"github.com/spikeekips/mitum/util/localtime"
	"github.com/spikeekips/mitum/util/valuehash"
)

var (
	ProposalFactHint     = hint.MustNewHint("proposal-fact-v0.0.1")
	ProposalSignFactHint = hint.MustNewHint("proposal-sign-fact-v0.0.1")
)

type ProposalFact struct {
	proposedAt    time.Time
	proposer      base.Address
	operations    [][2]util.Hash
	previousBlock util.Hash
	base.BaseFact
	point base.Point
}

func NewProposalFact(
	point base.Point,
	proposer base.Address,
	previousBlock util.Hash,
	operations [][2]util.Hash,
) ProposalFact {
	fact := ProposalFact{
		BaseFact:      base.NewBaseFact(ProposalFactHint, base.Token(util.ConcatByters(ProposalFactHint, point))),
		point:         point,
		proposer:      proposer,
		operations:    operations,
		previousBlock: previousBlock,
		proposedAt:    localtime.Now().UTC(),
	}

	fact.SetHash(fact.generateHash())

	return fact
}

func (fact ProposalFact) Point() base.Point {
	return fact.point
}

func (fact ProposalFact) Proposer() base.Address {
	return fact.proposer
}

func (fact ProposalFact) Operations() [][2]util.Hash {
	return fact.operations
}

func (fact ProposalFact) ProposedAt() time.Time {
	return fact.proposedAt
}

func (fact ProposalFact) PreviousBlock() util.Hash {
	return fact.previousBlock
}

func (fact ProposalFact) IsValid([]byte) error {
	e := util.ErrInvalid.Errorf("invalid ProposalFact")

	if err := fact.BaseFact.IsValid(nil); err != nil {
		return e.Wrap(err)
	}

	if err := base.IsValidProposalFact(fact); err != nil {
		return e.Wrap(err)
	}

	if !fact.Hash().Equal(fact.generateHash()) {
		return e.Errorf("wrong hash")
	}

	return nil
}

func (fact ProposalFact) generateHash() util.Hash {
	bs := make([]util.Byter, (len(fact.operations)*2)+5)
	bs[0] = util.BytesToByter(fact.Token())
	bs[1] = fact.point
	bs[2] = fact.proposer
	bs[3] = nil
	bs[4] = localtime.New(fact.proposedAt)

	for i := range fact.operations {
		bs[(i*2)+5] = fact.operations[i][0]
		bs[(i*2)+6] = fact.operations[i][1]
	}

	return valuehash.NewSHA256(util.ConcatByters(bs...))
}

type ProposalSignFact struct {
	fact base.ProposalFact
	sign base.BaseSign
	hint.BaseHinter
}

func NewProposalSignFact(fact ProposalFact) ProposalSignFact {
	return ProposalSignFact{
		BaseHinter: hint.NewBaseHinter(ProposalSignFactHint),
		fact:       fact,
	}
}

func (sf ProposalSignFact) IsValid(networkID []byte) error {
	if err := base.IsValidProposalSignFact(sf, networkID); err != nil {
		return util.ErrInvalid.WithMessage(err, "invalid ProposalSignFact")
	}

	return nil
}

func (sf ProposalSignFact) Fact() base.Fact {
	return sf.fact
}

func (sf ProposalSignFact) ProposalFact() base.ProposalFact {
	return sf.fact
}

func (sf ProposalSignFact) Point() base.Point {
	if sf.fact == nil {
		return base.ZeroPoint
	}

	return sf.fact.Point()
}

func (sf ProposalSignFact) Signs() []base.Sign {
	return []base.Sign{sf.sign}
}

func (sf ProposalSignFact) HashBytes() []byte {
	return util.ConcatByters(sf.BaseHinter, sf.sign)
}

func (sf *ProposalSignFact) Sign(priv base.Privatekey, networkID base.NetworkID) error {
	sign, err := base.NewBaseSignFromFact(
		priv,
		networkID,
		sf.fact,
	)
	if err != nil {
		return errors.Wrap(err, "sign ProposalSignFact")
	}

	sf.sign = sign

	return nil
}
