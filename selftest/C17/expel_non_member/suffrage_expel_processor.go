package isaacoperation

import (
	"context"

	"github.com/spikeekips/mitum/base"
	"github.com/spikeekips/mitum/isaac"
	"github.com/spikeekips/mitum/util"
)

var ExpelPreProcessedContextKey = util.ContextKey("expel-preprocessed")

type SuffrageExpelProcessor struct {
	*base.BaseOperationProcessor
	sufstv       base.SuffrageNodesStateValue
	suffrage     base.Suffrage
	preprocessed map[string]struct{} //revive:disable-line:nested-structs
}

func NewSuffrageExpelProcessor(
	height base.Height,
	getStateFunc base.GetStateFunc,
	newPreProcessConstraintFunc base.NewOperationProcessorProcessFunc,
	newProcessConstraintFunc base.NewOperationProcessorProcessFunc,
) (*SuffrageExpelProcessor, error) {
	e := util.StringError("create new SuffrageExpelProcessor")

	b, err := base.NewBaseOperationProcessor(
		height, getStateFunc, newPreProcessConstraintFunc, newProcessConstraintFunc)
	if err != nil {
		return nil, e.Wrap(err)
	}

	p := &SuffrageExpelProcessor{
		BaseOperationProcessor: b,
		preprocessed:           map[string]struct{}{},
	}

	switch i, found, err := getStateFunc(isaac.SuffrageStateKey); {
	case err != nil:
		return nil, e.Wrap(err)
	case !found, i == nil:
		return nil, e.Errorf("empty state")
	default:
		p.sufstv = i.Value().(base.SuffrageNodesStateValue) //nolint:forcetypeassert //...

		suf, err := p.sufstv.Suffrage()
		if err != nil {
			return nil, e.Errorf("get suffrage from state")
		}

		p.suffrage = suf
	}

	return p, nil
}

func (p *SuffrageExpelProcessor) Close() error {
	if err := p.BaseOperationProcessor.Close(); err != nil {
		return err
	}

	p.sufstv = nil
	p.suffrage = nil
	clear(p.preprocessed)

	return nil
}

func (p *SuffrageExpelProcessor) PreProcess(ctx context.Context, op base.Operation, getStateFunc base.GetStateFunc) (
	context.Context, base.OperationProcessReasonError, error,
) {
	e := util.StringError("preprocess for SuffrageExpel")

	fact := op.Fact().(base.SuffrageExpelFact) //nolint:forcetypeassert //...

	switch {
	case fact.ExpelStart() > p.Height():
		return ctx, base.NewBaseOperationProcessReason("wrong start height"), nil
	case fact.ExpelEnd() < p.Height():
		return ctx, base.NewBaseOperationProcessReason("expired"), nil
	}

	n := fact.Node()

	if _, found := p.preprocessed[n.String()]; found {
		return ctx, base.NewBaseOperationProcessReasonf("already preprocessed, %q", n), nil
	}


	switch reasonerr, err := p.PreProcessConstraintFunc(ctx, op, getStateFunc); {
	case err != nil:
		return ctx, nil, e.Wrap(err)
	case reasonerr != nil:
		return ctx, reasonerr, nil
	}

	p.preprocessed[n.String()] = struct{}{}

	var preprocessed []base.Address

	_ = util.LoadFromContext(ctx, ExpelPreProcessedContextKey, &preprocessed)
	preprocessed = append(preprocessed, n)

	return context.WithValue(ctx, ExpelPreProcessedContextKey, preprocessed), nil, nil
}

func (p *SuffrageExpelProcessor) Process(ctx context.Context, op base.Operation, getStateFunc base.GetStateFunc) (
	[]base.StateMergeValue, base.OperationProcessReasonError, error,
) {
	e := util.StringError("process for SuffrageExpel")

	switch reasonerr, err := p.ProcessConstraintFunc(ctx, op, getStateFunc); {
	case err != nil:
		return nil, nil, e.Wrap(err)
	case reasonerr != nil:
		return nil, reasonerr, nil
	}

	fact := op.Fact().(base.SuffrageExpelFact) //nolint:forcetypeassert //...

	return []base.StateMergeValue{
		base.NewBaseStateMergeValue(
			isaac.SuffrageStateKey,
			newSuffrageDisjoinNodeStateValue(fact.Node()),
			func(height base.Height, st base.State) base.StateValueMerger {
				return NewSuffrageJoinStateValueMerger(height, st)
			},
		),
	}, nil, nil
}
