package isaacoperation

import (
	"context"
	"sort"
	"sync"

	"github.com/pkg/errors"
	"github.com/spikeekips/mitum/base"
	"github.com/spikeekips/mitum/isaac"
	"github.com/spikeekips/mitum/util"
)

type SuffrageJoinProcessor struct {
	*base.BaseOperationProcessor
	sufstv       base.SuffrageNodesStateValue
	suffrage     base.Suffrage
	candidates   map[string]base.SuffrageCandidateStateValue
	preprocessed map[string]struct{} //revive:disable-line:nested-structs
	threshold    base.Threshold
}

func NewSuffrageJoinProcessor(
	height base.Height,
	threshold base.Threshold,
	getStateFunc base.GetStateFunc,
	newPreProcessConstraintFunc base.NewOperationProcessorProcessFunc,
	newProcessConstraintFunc base.NewOperationProcessorProcessFunc,
) (*SuffrageJoinProcessor, error) {
	e := util.StringError("create new SuffrageJoinProcessor")

	b, err := base.NewBaseOperationProcessor(
		height, getStateFunc, newPreProcessConstraintFunc, newProcessConstraintFunc)
	if err != nil {
		return nil, e.Wrap(err)
	}

	p := &SuffrageJoinProcessor{
		BaseOperationProcessor: b,
		threshold:              threshold,
		candidates:             map[string]base.SuffrageCandidateStateValue{},
		preprocessed:           map[string]struct{}{},
	}

	switch i, found, err := getStateFunc(isaac.SuffrageStateKey); {
	case err != nil:
		return nil, e.Wrap(err)
	case !found, i == nil:
		return nil, e.Errorf("empty state")
	default:
		p.sufstv = i.Value().(base.SuffrageNodesStateValue) //nolint:forcetypeassert //...

		suf, err := p.sufstv.Suffrage()
		if err != nil {
			return nil, e.Errorf("get suffrage from state")
		}

		p.suffrage = suf
	}

	switch _, candidates, err := isaac.LastCandidatesFromState(height, getStateFunc); {
	case err != nil:
		return nil, e.Wrap(err)
	case candidates == nil:
	default:
		for i := range candidates {
			n := candidates[i]

			p.candidates[n.Address().String()] = n
		}
	}

	return p, nil
}

func (p *SuffrageJoinProcessor) Close() error {
	if err := p.BaseOperationProcessor.Close(); err != nil {
		return err
	}

	p.sufstv = nil
	p.suffrage = nil
	clear(p.candidates)
	clear(p.preprocessed)
	p.threshold = 0

	return nil
}

func (p *SuffrageJoinProcessor) PreProcess(ctx context.Context, op base.Operation, getStateFunc base.GetStateFunc) (
	context.Context, base.OperationProcessReasonError, error,
) {
	if len(p.candidates) < 1 {
		return ctx, base.NewBaseOperationProcessReason("not candidate"), nil
	}

	e := util.StringError("preprocess for SuffrageJoin")

	var noop base.NodeSignFact
	if err := util.SetInterfaceValue(op, &noop); err != nil {
		return ctx, nil, err
	}

	fact := op.Fact().(SuffrageJoinFact) //nolint:forcetypeassert //...
	n := fact.Candidate()

	if _, found := p.preprocessed[n.String()]; found {
		return ctx, base.NewBaseOperationProcessReasonf("already preprocessed, %q", n), nil
	}

	// NOTE the sign of candidate is looked up only once; same as
	// CheckFactSignsBySuffrage, node is identified by it's address and
	// publickey.
	var signer base.Node

	switch node, err := p.findCandidateFromSigns(op); {
	case err != nil:
		return ctx, base.NewBaseOperationProcessReason(err.Error()), nil
	case p.suffrage.ExistsPublickey(node.Address(), node.Publickey()):
		return ctx, base.NewBaseOperationProcessReasonf("candidate already in suffrage, %q", n), nil
	default:
		signer = node
	}

	var info base.SuffrageCandidateStateValue

	switch i, found := p.candidates[n.String()]; {
	case !found:
		return ctx, base.NewBaseOperationProcessReasonf("candidate not in candidates, %q", n), nil
	case fact.Start() != i.Start():
		return ctx, base.NewBaseOperationProcessReason("start does not match"), nil
	case i.Deadline() < p.Height():
		return ctx, base.NewBaseOperationProcessReasonf("candidate expired, %q", n), nil
	case !signer.Publickey().Equal(i.Publickey()):
		return ctx, base.NewBaseOperationProcessReason("not signed by candidate key"), nil
	default:
		info = i
	}

	switch reasonerr, err := p.PreProcessConstraintFunc(ctx, op, getStateFunc); {
	case err != nil:
		return ctx, nil, e.Wrap(err)
	case reasonerr != nil:
		return ctx, reasonerr, nil
	}

	if err := base.CheckFactSignsBySuffrage(p.suffrage, p.threshold, noop.NodeSigns()); err != nil {
		return ctx, base.NewBaseOperationProcessReason("not enough signs"), nil
	}

	p.preprocessed[info.Address().String()] = struct{}{}

	return ctx, nil, nil
}

func (p *SuffrageJoinProcessor) Process(ctx context.Context, op base.Operation, getStateFunc base.GetStateFunc) (
	[]base.StateMergeValue, base.OperationProcessReasonError, error,
) {
	e := util.StringError("process for SuffrageJoin")

	switch reasonerr, err := p.ProcessConstraintFunc(ctx, op, getStateFunc); {
	case err != nil:
		return nil, nil, e.Wrap(err)
	case reasonerr != nil:
		return nil, reasonerr, nil
	}

	fact := op.Fact().(SuffrageJoinFact) //nolint:forcetypeassert //...

	candidate := p.candidates[fact.Candidate().String()]
	member := isaac.NewNode(candidate.Publickey(), candidate.Address())

	return []base.StateMergeValue{
		base.NewBaseStateMergeValue(
			isaac.SuffrageCandidateStateKey,
			newSuffrageRemoveCandidateStateValue([]base.Address{member.Address()}),
			func(height base.Height, st base.State) base.StateValueMerger {
				return NewSuffrageCandidatesStateValueMerger(height, st)
			},
		),
		base.NewBaseStateMergeValue(
			isaac.SuffrageStateKey,
			newSuffrageJoinNodeStateValue([]base.Node{member}),
			func(height base.Height, st base.State) base.StateValueMerger {
				return NewSuffrageJoinStateValueMerger(height, st)
			},
		),
	}, nil, nil
}

func (*SuffrageJoinProcessor) findCandidateFromSigns(op base.Operation) (base.Node, error) {
	var fact SuffrageJoinFact
	if err := util.SetInterfaceValue(op.Fact(), &fact); err != nil {
		return nil, err
	}

	sfs := op.Signs()

	for i := range sfs {
		ns := sfs[i].(base.NodeSign) //nolint:forcetypeassert //...

		if !ns.Node().Equal(fact.Candidate()) {
			continue
		}

		return isaac.NewNode(ns.Signer(), ns.Node()), nil
	}

	return nil, errors.Errorf("not signed by Join")
}

type SuffrageJoinStateValueMerger struct {
	*base.BaseStateValueMerger
	existing  base.SuffrageNodesStateValue
	joined    []base.Node
	disjoined []base.Address
	l         sync.Mutex
}

func NewSuffrageJoinStateValueMerger(height base.Height, st base.State) *SuffrageJoinStateValueMerger {
	s := &SuffrageJoinStateValueMerger{
		BaseStateValueMerger: base.NewBaseStateValueMerger(height, isaac.SuffrageStateKey, st),
	}

	s.existing = st.Value().(base.SuffrageNodesStateValue) //nolint:forcetypeassert //...

	return s
}

func (s *SuffrageJoinStateValueMerger) Merge(value base.StateValue, op util.Hash) error {
	s.l.Lock()
	defer s.l.Unlock()

	switch t := value.(type) {
	case suffrageJoinNodeStateValue:
		s.joined = append(s.joined, t.nodes...)
	case suffrageDisjoinNodeStateValue:
		s.disjoined = append(s.disjoined, t.node)
	default:
		return errors.Errorf("unsupported suffrage state value, %T", value)
	}

	s.AddOperation(op)

	return nil
}

func (s *SuffrageJoinStateValueMerger) CloseValue() (base.State, error) {
	s.l.Lock()
	defer s.l.Unlock()

	newvalue, err := s.closeValue()
	if err != nil {
		return nil, errors.WithMessage(err, "close SuffrageJoinStateValueMerger")
	}

	s.BaseStateValueMerger.SetValue(newvalue)

	return s.BaseStateValueMerger.CloseValue()
}

func (s *SuffrageJoinStateValueMerger) closeValue() (base.StateValue, error) {
	if len(s.disjoined) < 1 && len(s.joined) < 1 {
		return nil, base.ErrIgnoreStateValue.Errorf("no nodes changes")
	}

	existingnodes := s.existing.Nodes()

	if len(s.disjoined) > 0 {
		existingnodes = util.Filter2Slices(
			existingnodes,
			s.disjoined,
			func(x base.SuffrageNodeStateValue, y base.Address) bool {
				return x.Address().Equal(y)
			},
		)
	}

	if len(s.joined) > 0 {
		sort.Slice(s.joined, func(i, j int) bool { // NOTE sort by address
			return s.joined[i].Address().String() < s.joined[j].Address().String()
		})
	}

	newnodes := make([]base.SuffrageNodeStateValue, len(existingnodes)+len(s.joined))
	copy(newnodes, existingnodes)

	for i := range s.joined {
		newnodes[len(existingnodes)+i] = isaac.NewSuffrageNodeStateValue(s.joined[i], s.Height()+1)
	}

	return isaac.NewSuffrageNodesStateValue(
		s.existing.Height()+1,
		newnodes,
	), nil
}

type suffrageJoinNodeStateValue struct {
	nodes []base.Node
}

func newSuffrageJoinNodeStateValue(nodes []base.Node) suffrageJoinNodeStateValue {
	return suffrageJoinNodeStateValue{
		nodes: nodes,
	}
}

func (s suffrageJoinNodeStateValue) IsValid([]byte) error {
	if err := util.CheckIsValiderSlice(nil, false, s.nodes); err != nil {
		return util.ErrInvalid.Errorf("invalie suffrageJoinNodeStateValue")
	}

	return nil
}

func (s suffrageJoinNodeStateValue) HashBytes() []byte {
	bs := make([]util.Byter, len(s.nodes))

	for i := range s.nodes {
		bs[i] = util.DummyByter(s.nodes[i].HashBytes)
	}

	return util.ConcatByters(bs...)
}
