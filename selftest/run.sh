#!/bin/bash
# usage: selftest/run.sh Cxx [mutant ...]   -- runs ./check Cxx --tier quick with each mutant overlay once, prints a summary line
cd /verif
p=$1; shift
ms="$@"; [ -z "$ms" ] && ms=$(ls selftest/$p)
for m in $ms; do
  [ -f selftest/$p/$m/overlay.json ] || continue
  out=$(./check $p --tier quick --overlay selftest/$p/$m/overlay.json 2>&1); rc=$?
  classes=$(echo "$out" | grep -o '"class": "[a-zA-Z0-9_-]*"' | sort | uniq -c | tr '\n' ' ')
  echo "$m rc=$rc $(echo "$out" | grep -c '^VIOLATION') violation-line(s); $(echo "$out" | grep "tier=quick" | sed 's/.*theorems/theorems/'); classes: $classes $(echo "$out" | grep -o 'no-failing-input-found')"
done
