package isaac

import (
	"context"
	"math"
	"sync"
	"sync/atomic"

	"github.com/pkg/errors"
	"github.com/rs/zerolog"
	"github.com/spikeekips/mitum/base"
	"github.com/spikeekips/mitum/util"
	"github.com/spikeekips/mitum/util/hint"
	"github.com/spikeekips/mitum/util/logging"
)

var (
	ErrOperationInProcessorNotFound         = util.NewIDError("operation processor not found")
	ErrInvalidOperationInProcessor          = util.NewIDError("invalid operation")
	ErrOperationNotFoundInProcessor         = util.NewIDError("operation not found")
	ErrOperationAlreadyProcessedInProcessor = util.NewIDError("operation already processed")
	ErrSuspendOperation                     = util.NewIDError("suspend operation")
	ErrProcessorAlreadySaved                = util.NewIDError("processor already saved")
	ErrProposalProcessorEmptyOperations     = util.NewIDError("empty operations in proposal")
)

type (
	NewOperationProcessorFunc         func(base.Height, hint.Hint, base.GetStateFunc) (base.OperationProcessor, error)
	NewOperationProcessorInternalFunc func(base.Height, base.GetStateFunc) (base.OperationProcessor, error)

	// OperationProcessorGetOperationFunction works,
	// - if operation is invalid, getOperation should return nil,
	// ErrInvalidOperationInProcessor; it will be not processed and it's fact
	// hash will be stored.
	// - if operation not found in remote, getOperation should return nil,
	// ErrOperationNotFoundInProcessor; it will be ignored.
	// - if operation is known, return nil,
	// ErrOperationAlreadyProcessedInProcessor; it will be ignored.
	// - if operation fact not match with fact in proposal,
	// return ErrNotProposalProcessorProcessed; it will stop processing proposal
	// and makes wrong ACCEPT ballot for next round.
	OperationProcessorGetOperationFunction func(_ context.Context, operationhash, fact util.Hash) (
		base.Operation, error)
	NewBlockWriterFunc func(base.ProposalSignFact, base.GetStateFunc) (BlockWriter, error)
)

type ProposalProcessor interface {
	Proposal() base.ProposalSignFact
	Process(context.Context, base.INITVoteproof) (base.Manifest, error)
	Save(context.Context, base.ACCEPTVoteproof) (base.BlockMap, error)
	Cancel() error
}

type DefaultProposalProcessorArgs struct {
	NewWriterFunc             NewBlockWriterFunc
	GetStateFunc              base.GetStateFunc
	GetOperationFunc          OperationProcessorGetOperationFunction
	NewOperationProcessorFunc NewOperationProcessorFunc
	EmptyProposalNoBlockFunc  func() bool
	MaxWorkerSize             int64
}

func NewDefaultProposalProcessorArgs() *DefaultProposalProcessorArgs {
	return &DefaultProposalProcessorArgs{
		NewOperationProcessorFunc: func(base.Height, hint.Hint, base.GetStateFunc) (base.OperationProcessor, error) {
			return nil, nil
		},
		MaxWorkerSize:            1 << 13, //nolint:mnd // big enough
		EmptyProposalNoBlockFunc: func() bool { return false },
	}
}

type DefaultProposalProcessor struct {
	*logging.Logging
	proposal    base.ProposalSignFact
	getctx      func() context.Context
	cancel      func()
	previous    base.Manifest
	manifest    base.Manifest
	args        *DefaultProposalProcessorArgs
	writer      BlockWriter
	ivp         base.INITVoteproof
	oprs        *util.ShardedMap[string, base.OperationProcessor]
	stcache     *util.ShardedMap[string, [2]interface{}]
	processlock sync.Mutex
	isprocessed bool
	issaved     bool
}

func NewDefaultProposalProcessor(
	proposal base.ProposalSignFact,
	previous base.Manifest,
	args *DefaultProposalProcessorArgs,
) (*DefaultProposalProcessor, error) {
	oprs, _ := util.NewShardedMap[string, base.OperationProcessor](1<<5, nil) //nolint:mnd //...
	stcache, _ := util.NewShardedMap[string, [2]interface{}](uint64(math.MaxUint16), nil)

	ctx, ctxcancel := context.WithCancel(context.Background())

	p := &DefaultProposalProcessor{
		Logging: logging.NewLogging(func(lctx zerolog.Context) zerolog.Context {
			return lctx.Str("module", "default-proposal-processor")
		}),
		proposal: proposal,
		getctx:   func() context.Context { return ctx },
		previous: previous,
		args:     args,
		oprs:     oprs,
		stcache:  stcache,
	}

	var cancelonce sync.Once

	p.cancel = func() {
		cancelonce.Do(func() {
			ctxcancel()

			p.Log().Debug().Msg("proposal processor canceled")
		})
	}

	return p, nil
}

func (p *DefaultProposalProcessor) Proposal() base.ProposalSignFact {
	return p.proposal
}

func (p *DefaultProposalProcessor) Process(ctx context.Context, ivp base.INITVoteproof) (base.Manifest, error) {
	p.processlock.Lock()
	defer p.processlock.Unlock()

	defer func() {
		p.oprs.Close()
	}()

	switch {
	case p.isprocessed:
		return nil, errors.Errorf("already processed")
	case p.isCanceled():
		return nil, errors.Errorf("already canceled")
	}

	e := util.StringError("process operations")

	pctx, cancel := context.WithCancel(p.getctx())
	defer cancel()

	deferf, f := p.deferctx(ctx, cancel)
	defer deferf()
	f()

	p.ivp = ivp

	switch manifest, err := p.process(pctx); {
	case err != nil:
		return nil, e.Wrap(err)
	default:
		p.isprocessed = true
		p.manifest = manifest

		return manifest, nil
	}
}

func (p *DefaultProposalProcessor) Save(ctx context.Context, avp base.ACCEPTVoteproof) (base.BlockMap, error) {
	defer logging.TimeElapsed()(p.Log().Debug(), "saved")

	p.processlock.Lock()
	defer p.processlock.Unlock()

	switch {
	case p.issaved:
		return nil, ErrProcessorAlreadySaved.WithStack()
	case p.isCanceled():
		return nil, errors.Errorf("already canceled")
	}

	sctx, cancel := context.WithCancel(p.getctx())
	defer cancel()

	deferf, f := p.deferctx(ctx, cancel)
	defer deferf()
	f()

	defer p.close()

	p.issaved = true

	switch bm, err := p.save(sctx, avp); {
	case err != nil:
		p.Log().Error().Err(err).Msg("save")

		return nil, err
	default:
		return bm, nil
	}
}

func (p *DefaultProposalProcessor) Cancel() error {
	p.cancel()

	return nil
}

func (p *DefaultProposalProcessor) close() {
	p.cancel()
}

func (p *DefaultProposalProcessor) isCanceled() bool {
	return p.getctx().Err() != nil
}

func (p *DefaultProposalProcessor) process(ctx context.Context) (base.Manifest, error) {
	defer logging.TimeElapsed()(p.Log().Debug(), "processed")

	var cops, reserved []base.Operation

	switch i, j, err := p.collectOperations(ctx); {
	case err != nil:
		return nil, errors.WithMessage(err, "collect operations")
	case len(i) < 1 && len(j) < 1:
		if p.args.EmptyProposalNoBlockFunc() {
			return nil, ErrProposalProcessorEmptyOperations.Errorf("collect operations")
		}
	default:
		cops = i
		reserved = j
	}

	switch writer, err := p.args.NewWriterFunc(p.proposal, p.getStateFunc); {
	case err != nil:
		return nil, errors.Wrap(err, "make new ProposalProcessor")
	default:
		p.writer = writer

		if i, ok := writer.(logging.SetLogging); ok {
			_ = i.SetLogging(p.Logging)
		}
	}

	if len(cops) > 0 || len(reserved) > 0 {
		if err := p.processOperations(ctx, cops, reserved); err != nil {
			return nil, errors.WithMessage(err, "process operations")
		}
	}

	var manifest base.Manifest

	switch i, err := p.createManifest(ctx); {
	case err != nil:
		return nil, err
	default:
		manifest = i
	}

	p.Log().Info().Interface("manifest", manifest).Msg("new manifest prepared")

	return manifest, nil
}

func (p *DefaultProposalProcessor) collectOperations(ctx context.Context) (cops, reserved []base.Operation, _ error) {
	defer logging.TimeElapsed()(p.Log().Debug(), "operations collected")

	e := util.StringError("collect operations")

	if w, ok := p.ivp.(base.ExpelVoteproof); ok {
		expels := w.Expels()
		reserved = make([]base.Operation, len(expels))

		for i := range expels {
			reserved[i] = expels[i]
		}

		p.Log().Debug().
			Int("operations", len(reserved)).
			Msg("collecting reserved operations")
	}

	ophs := p.proposal.ProposalFact().Operations()

	cops = make([]base.Operation, len(ophs))

	p.Log().Debug().
		Int("operations", len(cops)).
		Msg("collecting operations")

	if len(ophs) < 1 {
		return cops, reserved, nil
	}

	cctx, cancel := context.WithCancel(ctx)
	defer cancel()

	workersize := int64(len(ophs))
	if workersize > p.args.MaxWorkerSize {
		workersize = p.args.MaxWorkerSize
	}

	if err := util.RunJobWorker(cctx, workersize, int64(len(ophs)), func(ctx context.Context, i, _ uint64) error {
		oph := ophs[i][0]
		fact := ophs[i][1]

		l := p.Log().With().
			Stringer("operation", oph).
			Stringer("fact", fact).
			Logger()

		switch op, err := p.getOperation(ctx, oph, fact); {
		case err != nil:
			l.Debug().Err(err).Msg("failed to collect operation")

			return err
		case op == nil:
			l.Debug().Msg("operation ignored")
		default:
			l.Trace().Msg("operation collected")

			cops[i] = op
		}

		return nil
	}); err != nil {
		cancel()

		return cops, reserved, e.Wrap(err)
	}

	return cops, reserved, nil
}

func (p *DefaultProposalProcessor) processOperations(ctx context.Context, cops, reserved []base.Operation) error {
	defer logging.TimeElapsed()(
		p.Log().Debug().
			Dict("operations", zerolog.Dict().
				Int("proposal", len(cops)).
				Int("reserved", len(reserved)),
			),
		"operations processed")

	e := util.StringError("process operations")

	nops := len(cops) + len(reserved)

	p.writer.SetOperationsSize(uint64(nops))

	var worker *util.BaseJobWorker

	{
		workersize := int64(nops)
		if workersize > p.args.MaxWorkerSize {
			workersize = p.args.MaxWorkerSize
		}

		switch i, err := util.NewBaseJobWorker(ctx, workersize); {
		case err != nil:
			return e.Wrap(err)
		default:
			worker = i

			defer worker.Close()
		}
	}

	var hasresultcount int64

	pctx := ctx

	for i := 0; i < len(cops)+len(reserved); i++ {
		var op base.Operation

		switch {
		case i < len(cops):
			op = cops[i]
		default:
			op = reserved[i-len(cops)]
		}

		if op == nil {
			continue
		}

		index := i

		var hasresult bool
		var err error

		switch pctx, hasresult, err = p.processOperation(pctx, worker, op, index); {
		case err != nil:
			return e.Wrap(err)
		case hasresult:
			atomic.AddInt64(&hasresultcount, 1)
		}
	}

	worker.Done()

	if err := worker.Wait(); err != nil {
		return e.Wrap(err)
	}

	if atomic.LoadInt64(&hasresultcount) < 1 && p.args.EmptyProposalNoBlockFunc() {
		return ErrProposalProcessorEmptyOperations.Errorf("process")
	}

	return nil
}

func (p *DefaultProposalProcessor) processOperation(
	ctx context.Context,
	worker *util.BaseJobWorker,
	op base.Operation,
	opsindex int,
) (_ context.Context, hasresult bool, _ error) {
	writer := p.writer

	if rop, ok := op.(ReasonProcessedOperation); ok {
		if err := worker.NewJob(func(ctx context.Context, _ uint64) error {
			return writer.SetProcessResult( //nolint:wrapcheck //...
				ctx, uint64(opsindex), rop.OperationHash(), rop.FactHash(), false, rop.Reason())
		}); err != nil {
			return ctx, false, err
		}

		return ctx, true, nil
	}

	var nctx context.Context

	switch pctx, reasonerr, passed, err := p.doPreProcessOperation(ctx, op); {
	case err != nil:
		return pctx, true, errors.WithMessage(err, "pre process operation")
	case reasonerr != nil:
		if err := worker.NewJob(func(ctx context.Context, _ uint64) error {
			return writer.SetProcessResult(
				ctx, uint64(opsindex), op.Hash(), op.Fact().Hash(), false, reasonerr,
			)
		}); err != nil {
			return pctx, false, err
		}

		return pctx, true, nil
	case !passed:
		return pctx, false, nil
	default:
		nctx = pctx
	}

	newOperationProcessor := p.args.NewOperationProcessorFunc

	if err := worker.NewJob(func(ctx context.Context, _ uint64) error {
		return p.doProcessOperation(ctx, writer, newOperationProcessor, uint64(opsindex), op)
	}); err != nil {
		return nctx, false, err
	}

	return nctx, true, nil
}

func (p *DefaultProposalProcessor) doPreProcessOperation(
	ctx context.Context,
	op base.Operation,
) (context.Context, base.OperationProcessReasonError, bool, error) {
	var f func(context.Context) (context.Context, base.OperationProcessReasonError, error)

	switch i, err := p.getPreProcessor(p.args.NewOperationProcessorFunc, op); {
	case err != nil:
		return ctx, nil, false, err
	case i == nil:
		return ctx, nil, false, nil // NOTE ignore
	default:
		f = i
	}

	switch pctx, errorreason, err := f(ctx); {
	case err == nil:
		return pctx, errorreason, true, nil
	case errors.Is(err, ErrSuspendOperation):
		return pctx, nil, false, nil
	default:
		return pctx, nil, false, err
	}
}

func (p *DefaultProposalProcessor) doProcessOperation(
	ctx context.Context,
	writer BlockWriter,
	newOperationProcessor NewOperationProcessorFunc,
	opsindex uint64,
	op base.Operation,
) error {
	e := util.StringError("process operation, %q", op.Fact().Hash())

	var f func(context.Context) ([]base.StateMergeValue, base.OperationProcessReasonError, error)

	switch i, err := p.getProcessor(newOperationProcessor, op); {
	case err != nil:
		return err
	case i == nil:
		return nil // NOTE ignore
	default:
		f = i
	}

	switch stvs, errorreason, err := f(ctx); {
	case err != nil:
		return err
	case len(stvs) < 1:
		if errorreason == nil {
			return e.Errorf("empty state must have reason")
		}
	case errorreason != nil:
		return e.Errorf("not empty state must have empty reason")
	default:
		instate := len(stvs) > 0
		if instate {
			if err := writer.SetStates(ctx, opsindex, stvs, op); err != nil {
				return e.Wrap(err)
			}
		}

		if err := writer.SetProcessResult(
			ctx, opsindex, op.Hash(), op.Fact().Hash(), instate, errorreason,
		); err != nil {
			return e.Wrap(err)
		}
	}

	return nil
}

func (p *DefaultProposalProcessor) getPreProcessor(newOperationProcessor NewOperationProcessorFunc, op base.Operation) (
	func(context.Context) (context.Context, base.OperationProcessReasonError, error),
	error,
) {
	switch opp, found, err := p.getOperationProcessor(newOperationProcessor, op.Hint()); {
	case err != nil:
		return nil, errors.Wrap(err, "get OperationProcessor for PreProcess")
	case found:
		return func(ctx context.Context) (context.Context, base.OperationProcessReasonError, error) {
			return opp.PreProcess(ctx, op, p.getStateFunc) //nolint:wrapcheck //...
		}, nil
	}

	return func(ctx context.Context) (context.Context, base.OperationProcessReasonError, error) {
		return op.PreProcess(ctx, p.getStateFunc) //nolint:wrapcheck //...
	}, nil
}

func (p *DefaultProposalProcessor) getProcessor(newOperationProcessor NewOperationProcessorFunc, op base.Operation) (
	func(context.Context) ([]base.StateMergeValue, base.OperationProcessReasonError, error),
	error,
) {
	switch opp, found, err := p.getOperationProcessor(newOperationProcessor, op.Hint()); {
	case err != nil:
		return nil, errors.Wrap(err, "get OperationProcessor for Process")
	case found:
		return func(ctx context.Context) ([]base.StateMergeValue, base.OperationProcessReasonError, error) {
			return opp.Process(ctx, op, p.getStateFunc) //nolint:wrapcheck //...
		}, nil
	}

	return func(ctx context.Context) ([]base.StateMergeValue, base.OperationProcessReasonError, error) {
		return op.Process(ctx, p.getStateFunc) //nolint:wrapcheck //...
	}, nil
}

func (p *DefaultProposalProcessor) getOperationProcessor(
	newOperationProcessor NewOperationProcessorFunc,
	ht hint.Hint,
) (base.OperationProcessor, bool, error) {
	var j base.OperationProcessor

	switch err := p.oprs.GetOrCreate(
		ht.String(),
		func(i base.OperationProcessor, _ bool) error {
			j = i

			return nil
		},
		func() (base.OperationProcessor, error) {
			switch i, err := newOperationProcessor(p.proposal.Point().Height(), ht, p.getStateFunc); {
			case err != nil:
				return nil, err
			case i == nil:
				return nil, ErrOperationInProcessorNotFound.WithStack()
			default:
				return i, nil
			}
		},
	); {
	case err == nil:
		return j, true, nil
	case errors.Is(err, ErrOperationInProcessorNotFound):
		return nil, false, nil
	default:
		return nil, false, errors.Wrap(err, "get OperationProcessor")
	}
}

func (p *DefaultProposalProcessor) save(ctx context.Context, avp base.ACCEPTVoteproof) (base.BlockMap, error) {
	e := util.StringError("save")

	switch {
	case p.manifest == nil:
		return nil, ErrNotProposalProcessorProcessed.Errorf("different manifest hash with majority")
	}

	if err := p.writer.SetINITVoteproof(ctx, p.ivp); err != nil {
		return nil, e.WithMessage(err, "set init voteproof")
	}

	if err := p.writer.SetACCEPTVoteproof(ctx, avp); err != nil {
		return nil, e.WithMessage(err, "set accept voteproof")
	}

	m, err := p.writer.Save(ctx)
	if err != nil {
		return nil, e.Wrap(err)
	}

	p.Log().Info().Interface("blockmap", m).Msg("new block saved in proposal processor")

	return m, nil
}

func (*DefaultProposalProcessor) deferctx(ctx context.Context, cancel func()) (func(), func()) {
	donech := make(chan struct{}, 1)

	return func() {
			donech <- struct{}{}
		},
		func() {
			go func() {
				select {
				case <-donech:
					return
				case <-ctx.Done():
					if ctx.Err() != nil {
						cancel()
					}
				}
			}()
		}
}

func (p *DefaultProposalProcessor) getOperation(ctx context.Context, oph, fact util.Hash) (base.Operation, error) {
	switch op, err := p.args.GetOperationFunc(ctx, oph, fact); {
	case err == nil:
		if op == nil {
			return nil, nil
		}

		// NOTE suffrage expel operation should be in voteproof.
		if _, ok := op.(base.SuffrageExpelOperation); ok {
			return nil, nil
		}

		// NOTE fetched operation fact hash != fact hash, stop processing
		if !op.Fact().Hash().Equal(fact) {
			return nil, ErrNotProposalProcessorProcessed
		}

		return op, nil
	case errors.Is(err, util.ErrInvalid),
		errors.Is(err, ErrOperationNotFoundInProcessor),
		errors.Is(err, ErrOperationAlreadyProcessedInProcessor):
		return nil, nil
	case errors.Is(err, ErrInvalidOperationInProcessor):
		return NewReasonProcessedOperation(
			oph,
			fact,
			base.NewBaseOperationProcessReason(err.Error()),
		), nil
	default:
		return nil, err
	}
}

func (p *DefaultProposalProcessor) createManifest(ctx context.Context) (base.Manifest, error) {
	defer logging.TimeElapsed()(p.Log().Debug(), "manifest processed")

	return p.writer.Manifest(ctx, p.previous)
}

func (p *DefaultProposalProcessor) getStateFunc(key string) (st base.State, found bool, _ error) {
	err := p.stcache.GetOrCreate(
		key,
		func(i [2]interface{}, _ bool) error {
			if i[0] != nil {
				st = i[0].(base.State) //nolint:forcetypeassert //...
			}

			found = i[1].(bool) //nolint:forcetypeassert //...

			return nil
		},
		func() (v [2]interface{}, _ error) {
			switch i, j, err := p.args.GetStateFunc(key); {
			case err != nil:
				return v, err
			default:
				return [2]interface{}{i, j}, nil
			}
		},
	)

	return st, found, err
}

type ReasonProcessedOperation struct {
	base.Operation
	op       util.Hash
	facthash util.Hash
	reason   base.OperationProcessReasonError
}

func NewReasonProcessedOperation(
	op, facthash util.Hash, reason base.OperationProcessReasonError,
) ReasonProcessedOperation {
	return ReasonProcessedOperation{op: op, facthash: facthash, reason: reason}
}

func (op ReasonProcessedOperation) OperationHash() util.Hash {
	return op.op
}

func (op ReasonProcessedOperation) FactHash() util.Hash {
	return op.facthash
}

func (op ReasonProcessedOperation) Reason() base.OperationProcessReasonError {
	return op.reason
}
