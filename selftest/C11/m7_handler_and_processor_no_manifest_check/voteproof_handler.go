package isaacstates

import (
	"context"
	"sync"
	"time"

	"github.com/pkg/errors"
	"github.com/rs/zerolog"
	"github.com/spikeekips/mitum/base"
	"github.com/spikeekips/mitum/isaac"
	"github.com/spikeekips/mitum/storage"
	"github.com/spikeekips/mitum/util"
)

type voteproofHandlerArgs struct {
	baseBallotHandlerArgs
	ProposalProcessors           *isaac.ProposalProcessors
	GetManifestFunc              func(base.Height) (base.Manifest, error)
	WhenNewBlockSaved            func(base.BlockMap)
	WhenNewBlockConfirmed        func(base.Height)
	whenNewVoteproof             func(base.Voteproof, isaac.LastVoteproofs) error
	prepareACCEPTBallot          func(base.INITVoteproof, util.Hash, time.Duration, base.ACCEPTBallotFact) error
	prepareNextRoundBallot       func(base.Voteproof, util.Hash, base.Suffrage, time.Duration) error
	prepareSuffrageConfirmBallot func(base.Voteproof)
	prepareNextBlockBallot       func(base.ACCEPTVoteproof, base.Suffrage, time.Duration) error
	checkInState                 func(base.Voteproof) switchContext
	whenNewBlockSaved            func(base.BlockMap, base.ACCEPTVoteproof)
	stt                          StateType
}

func newVoteproofHandlerArgs() voteproofHandlerArgs {
	args := voteproofHandlerArgs{
		baseBallotHandlerArgs: newBaseBallotHandlerArgs(),
		GetManifestFunc: func(base.Height) (base.Manifest, error) {
			return nil, util.ErrNotImplemented.Errorf("GetManifestFunc")
		},
		WhenNewBlockSaved:     func(base.BlockMap) {},
		WhenNewBlockConfirmed: func(base.Height) {},

		whenNewVoteproof: func(base.Voteproof, isaac.LastVoteproofs) error {
			return nil
		},
		prepareACCEPTBallot: func(base.INITVoteproof, util.Hash, time.Duration, base.ACCEPTBallotFact) error {
			return util.ErrNotImplemented.Errorf("prepareACCEPTBallot")
		},
		prepareNextRoundBallot: func(base.Voteproof, util.Hash, base.Suffrage, time.Duration) error {
			return util.ErrNotImplemented.Errorf("prepareNextRoundBallot")
		},
		prepareNextBlockBallot: func(base.ACCEPTVoteproof, base.Suffrage, time.Duration) error {
			return util.ErrNotImplemented.Errorf("prepareNextRoundBallot")
		},
		whenNewBlockSaved: func(base.BlockMap, base.ACCEPTVoteproof) {},
	}

	args.checkInState = func(vp base.Voteproof) switchContext {
		return newSyncingSwitchContextWithVoteproof(args.stt, vp)
	}

	return args
}

type voteproofHandler struct {
	baseBallotHandler
	args   *voteproofHandlerArgs
	vplock sync.Mutex
}

func newVoteproofHandler(
	stateType StateType,
	networkID base.NetworkID,
	local base.LocalNode,
	args *voteproofHandlerArgs,
) *voteproofHandler {
	args.stt = stateType

	return &voteproofHandler{
		baseBallotHandler: newBaseBallotHandlerType(stateType, networkID, local, &args.baseBallotHandlerArgs),
		args:              args,
	}
}

func (st *voteproofHandler) new() *voteproofHandler {
	nst := &voteproofHandler{
		baseBallotHandler: st.baseBallotHandler.new(),
		args:              st.args,
	}

	nst.args.prepareACCEPTBallot = nst.defaultPrepareACCEPTBallot
	nst.args.prepareNextRoundBallot = nst.defaultPrepareNextRoundBallot
	nst.args.prepareSuffrageConfirmBallot = nst.defaultPrepareSuffrageConfirmBallot
	nst.args.prepareNextBlockBallot = nst.defaultPrepareNextBlockBallot

	return nst
}

func (st *voteproofHandler) enter(from StateType, i switchContext) (func(), error) {
	e := util.StringError("enter state")

	deferred, err := st.baseBallotHandler.enter(from, i)
	if err != nil {
		return nil, e.Wrap(err)
	}

	var sctx voteproofSwitchContext
	var vp base.Voteproof

	switch err := util.SetInterfaceValue(i, &sctx); {
	case err != nil:
		return nil, e.Wrap(err)
	case sctx.voteproof() == nil:
		return nil, e.Errorf("invalid switchContext, empty voteproof")
	default:
		vp = sctx.voteproof()
	}

	switch suf, found, err := st.args.NodeInConsensusNodesFunc(
		st.local, vp.Point().Height().SafePrev()); {
	case errors.Is(err, storage.ErrNotFound):
		st.Log().Debug().
			Dict("state_context", switchContextLog(sctx)).
			Interface("height", vp.Point().Height()).
			Msg("suffrage not found at entering state; moves to syncing state")

		return nil, newSyncingSwitchContextWithVoteproof(st.stt, vp)
	case err != nil:
		return nil, e.Wrap(err)
	case suf == nil || suf.Len() < 1:
		return nil, e.Errorf("empty suffrage of init voteproof")
	case !found:
		st.Log().Debug().
			Dict("state_context", switchContextLog(sctx)).
			Interface("height", vp.Point().Height()).
			Msg("local is not in consensus nodes at entering state; moves to syncing state")

		return nil, newSyncingSwitchContextWithVoteproof(st.stt, vp)
	}

	switch lvps, found := st.voteproofs(vp.Point()); {
	case !found:
		return nil, e.Errorf("last voteproofs not found, %v", vp.Point())
	default:
		st.vplock.Lock()

		return func() {
			deferred()

			st.enterWithNewVoteproof(vp, lvps)
		}, nil
	}
}

func (st *voteproofHandler) exit(sctx switchContext) (func(), error) {
	e := util.StringError("exit")

	deferred, err := st.baseBallotHandler.exit(sctx)
	if err != nil {
		return nil, e.Wrap(err)
	}

	if st.bbt != nil && !st.allowedConsensus() {
		if err := st.bbt.StopTimers(); err != nil {
			st.Log().Error().Err(err).Dict("state", switchContextLog(sctx)).Msg("failed to stop all timers")
		}
	}

	if err := st.args.ProposalProcessors.Cancel(); err != nil {
		return nil, e.WithMessage(err, "cancel proposal processors")
	}

	return deferred, nil
}

func (st *voteproofHandler) processProposalFunc(ivp base.INITVoteproof) (func(context.Context) error, error) {
	facthash := ivp.BallotMajority().Proposal()
	l := st.Log().With().Stringer("fact", facthash).Logger()
	l.Debug().Msg("trying to process proposal")

	e := util.StringError("process proposal")

	var process isaac.ProcessorProcessFunc

	switch i, err := st.processProposalInternal(ivp); {
	case err == nil:
		if i == nil {
			l.Debug().Msg("empty manifest; ignore")

			return nil, nil
		}

		process = i
	case errors.Is(err, context.Canceled),
		errors.Is(err, isaac.ErrNotProposalProcessorProcessed):
		// NOTE instead of moving next round, intended-wrong accept ballot.
		return func(ctx context.Context) error {
				return st.wrongACCEPTBallot(ctx, ivp)
			},
			nil
	default:
		err = e.Wrap(err)

		l.Error().Err(err).Msg("failed to process proposal; moves to broken state")

		return nil, newBrokenSwitchContext(st.stt, err)
	}

	return func(ctx context.Context) error {
		manifest, err := process(ctx)

		switch {
		case errors.Is(err, context.Canceled),
			errors.Is(err, isaac.ErrNotProposalProcessorProcessed):
			if eerr := st.wrongACCEPTBallot(ctx, ivp); eerr != nil {
				return e.Wrap(eerr)
			}

			return nil
		case errors.Is(err, isaac.ErrProposalProcessorEmptyOperations):
			fact := isaac.NewEmptyOperationsACCEPTBallotFact(
				ivp.Point().Point,
				ivp.BallotMajority().Proposal(),
			)

			if perr := st.args.prepareACCEPTBallot(ivp, nil, time.Nanosecond, fact); perr != nil {
				return e.WithMessage(perr, "prepare intended empty operations accept ballot")
			}

			return nil
		case err != nil:
			return e.Wrap(err)
		case manifest == nil:
			return nil
		}

		eavp := st.lastVoteproofs().ACCEPT()

		if err := st.args.prepareACCEPTBallot(ivp, manifest.Hash(), time.Nanosecond, nil); err != nil {
			l.Error().Err(err).Msg("failed to prepare accept ballot")

			return e.Wrap(err)
		}

		if eavp == nil || !eavp.Point().Point.Equal(ivp.Point().Point) {
			return nil
		}

		ll := l.With().Str("accept_voteproof_id", eavp.ID()).Logger()

		var sctx switchContext

		switch saved, err := st.handleACCEPTVoteproofAfterProcessingProposal(manifest, eavp); {
		case err == nil:
			if saved {
				ll.Debug().Msg("new block saved by accept voteproof after processing proposal")
			}

			return nil
		case errors.As(err, &sctx):
		default:
			ll.Error().Err(err).Msg("failed to save new block by accept voteproof after processing proposal")

			sctx = newBrokenSwitchContext(st.stt, errors.Wrap(err, "save proposal"))
		}

		return sctx
	}, nil
}

func (st *voteproofHandler) processProposal(ivp base.INITVoteproof) (func(), error) {
	f, err := st.processProposalFunc(ivp)

	switch {
	case err != nil:
		return nil, err
	case f == nil:
		return func() {}, nil
	}

	return func() {
		var sctx switchContext

		switch err := f(st.ctx); {
		case err == nil:
		case errors.As(err, &sctx):
			go st.switchState(sctx)
		default:
			go st.switchState(newBrokenSwitchContext(st.stt, err))
		}
	}, nil
}

func (st *voteproofHandler) processProposalInternal(ivp base.INITVoteproof) (isaac.ProcessorProcessFunc, error) {
	e := util.StringError("process proposal")

	facthash := ivp.BallotMajority().Proposal()

	var previous base.Manifest

	switch m, err := st.args.GetManifestFunc(ivp.Point().Height() - 1); {
	case err != nil:
		return nil, e.Wrap(err)
	default:
		previous = m
	}

	switch process, err := st.args.ProposalProcessors.Process(st.ctx, ivp.Point().Point, facthash, previous, ivp); {
	case err != nil:
		return nil, e.Wrap(err)
	case process == nil:
		return nil, nil
	default:
		return func(ctx context.Context) (base.Manifest, error) {
			switch manifest, err := process(ctx); {
			case err != nil:
				st.Log().Error().Err(err).Msg("failed to process proposal")

				if errors.Is(err, context.Canceled) {
					return nil, err
				}

				if err0 := st.args.ProposalProcessors.Cancel(); err0 != nil {
					return nil, e.WithMessage(err0, "cancel proposal processors")
				}

				return nil, err
			case manifest == nil:
				st.Log().Debug().Msg("empty manifest; already processed")

				return nil, nil
			default:
				st.Log().Debug().Msg("proposal processed")

				return manifest, nil
			}
		}, nil
	}
}

func (st *voteproofHandler) handleACCEPTVoteproofAfterProcessingProposal(
	manifest base.Manifest, avp base.ACCEPTVoteproof,
) (saved bool, _ error) {
	st.vplock.Lock()
	defer st.vplock.Unlock()

	l := st.Log().With().Str("accept_voteproof", avp.ID()).Logger()

	switch { // NOTE check last accept voteproof is the execpted
	case avp.Result() != base.VoteResultMajority:
		if err := st.args.ProposalProcessors.Cancel(); err != nil {
			l.Error().Err(err).
				Msg("expected accept voteproof is not majority result; cancel processor, but failed")

			return false, err
		}

		l.Debug().Msg("expected accept voteproof is not majority result; ignore")

		return false, nil
	case manifest == nil:
		if err := st.args.ProposalProcessors.Cancel(); err != nil {
			l.Error().Err(err).
				Msg("expected accept voteproof has different new block; cancel processor, but failed")

			return false, err
		}

		l.Debug().Msg("expected accept voteproof has different new block; moves to syncing")

		return false, newSyncingSwitchContextWithVoteproof(st.stt, avp)
	default:
		l.Debug().Msg("proposal processed and expected voteproof found")
	}

	var sctx switchContext

	switch i, err := st.saveBlock(avp); {
	case err == nil:
		saved = i
	case errors.As(err, &sctx):
	default:
		sctx = newBrokenSwitchContext(st.stt, errors.Wrap(err, "save proposal"))
	}

	return saved, sctx
}

func (st *voteproofHandler) newVoteproof(vp base.Voteproof) error {
	st.vplock.Lock()
	defer st.vplock.Unlock()

	if sctx := st.args.checkInState(vp); sctx != nil {
		return sctx
	}

	if err := st.handleNewVoteproof(vp); err != nil {
		return err
	}

	return st.args.checkInState(vp)
}

func (st *voteproofHandler) handleNewVoteproof(vp base.Voteproof) error {
	switch lvps, v, isnew := st.baseBallotHandler.setNewVoteproof(vp); {
	case v == nil, !isnew:
		return nil
	default:
		return st.newVoteproofWithLVPS(vp, lvps)
	}
}

func (st *voteproofHandler) newVoteproofWithLVPS(vp base.Voteproof, lvps isaac.LastVoteproofs) error {
	if st.resolver != nil {
		st.resolver.Cancel(vp.Point())
	}

	e := util.StringError("handle new voteproof")

	if err := st.args.whenNewVoteproof(vp, lvps); err != nil {
		return e.Wrap(err)
	}

	switch keep, err := st.checkStuckVoteproof(vp, lvps); {
	case err != nil:
		return err
	case !keep:
		return nil
	}

	switch vp.Point().Stage() {
	case base.StageINIT:
		return st.newINITVoteproof(vp.(base.INITVoteproof), lvps) //nolint:forcetypeassert //...
	case base.StageACCEPT:
		return st.newACCEPTVoteproof(vp.(base.ACCEPTVoteproof), lvps) //nolint:forcetypeassert //...
	default:
		return e.Errorf("invalid voteproof received, %T", vp)
	}
}

func (st *voteproofHandler) newINITVoteproof(ivp base.INITVoteproof, lvps isaac.LastVoteproofs) error {
	c := lvps.Cap()

	st.Log().Debug().
		Func(base.VoteproofLogFunc("init_voteproof", ivp)).
		Func(base.VoteproofLogFunc("last_voteproof", c)).
		Msg("new init voteproof received")

	switch c.Point().Stage() { //nolint:exhaustive //...
	case base.StageINIT:
		return st.newINITVoteproofWithLastINITVoteproof(ivp, lvps)
	case base.StageACCEPT:
		return st.newINITVoteproofWithLastACCEPTVoteproof(ivp, lvps)
	}

	return nil
}

func (st *voteproofHandler) newACCEPTVoteproof(avp base.ACCEPTVoteproof, lvps isaac.LastVoteproofs) error {
	lvp := lvps.Cap()

	st.Log().Debug().
		Func(base.VoteproofLogFunc("accept_voteproof", avp)).
		Func(base.VoteproofLogFunc("last_voteproof", lvp)).
		Msg("new accept voteproof received")

	switch lvp.Point().Stage() { //nolint:exhaustive //...
	case base.StageINIT:
		return st.newACCEPTVoteproofWithLastINITVoteproof(avp, lvps)
	case base.StageACCEPT:
		return st.newACCEPTVoteproofWithLastACCEPTVoteproof(avp, lvps)
	}

	return nil
}

func (st *voteproofHandler) newINITVoteproofWithLastINITVoteproof(
	ivp base.INITVoteproof, lvps isaac.LastVoteproofs,
) error {
	livp := lvps.Cap().(base.INITVoteproof) //nolint:forcetypeassert //...

	l := st.Log().With().Str("voteproof", ivp.ID()).Object("point", ivp.Point()).Logger()

	switch {
	case ivp.Point().Height() > livp.Point().Height(): // NOTE higher height; moves to syncing state
		l.Debug().Msg("higher init voteproof; moves to syncing state")

		return newSyncingSwitchContextWithVoteproof(st.stt, ivp)
	case ivp.Result() != base.VoteResultMajority: // NOTE new init voteproof has same height, but higher round
		l.Debug().Msg("new init voteproof draw; moves to next round")

		go st.nextRound(ivp, lvps.PreviousBlockForNextRound(ivp))

		return nil
	}

	lavp := lvps.ACCEPT()

	if lavp == nil {
		l.Debug().Msg("empty last accept voteproof; moves to broken state")

		return newBrokenSwitchContext(st.stt, errors.Errorf("empty last accept voteproof"))
	}

	if m := lvps.PreviousBlockForNextRound(ivp); m == nil || !ivp.BallotMajority().PreviousBlock().Equal(m) {
		// NOTE local stored block is different with other nodes
		l.Debug().
			Stringer("previous_block", ivp.BallotMajority().PreviousBlock()).
			Func(func(e *zerolog.Event) {
				if m != nil {
					e.Stringer("new_block", m)
				}
			}).
			Msg("previous block does not match with last accept voteproof; moves to syncing")

		return newSyncingSwitchContextWithVoteproof(st.stt, ivp)
	}

	switch keep, err := st.checkSuffrageVoting(ivp); {
	case err != nil:
		return err
	case !keep:
		return nil
	default:
		go st.whenNewBlockConfirmed(lavp)

		process, err := st.processProposal(ivp)
		if err != nil {
			return err
		}

		go process()

		return nil
	}
}

func (st *voteproofHandler) newINITVoteproofWithLastACCEPTVoteproof(
	ivp base.INITVoteproof, lvps isaac.LastVoteproofs,
) error {
	lavp := lvps.Cap().(base.ACCEPTVoteproof) //nolint:forcetypeassert //...

	switch expectedheight := lavp.Point().Height() + 1; {
	case ivp.Point().Height() > expectedheight:
		st.Log().Debug().Msg("higher init voteproof; moves to syncing state")

		return newSyncingSwitchContextWithVoteproof(st.stt, ivp)
	case ivp.Result() == base.VoteResultDraw:
		st.Log().Debug().Msg("new init voteproof draw; moves to next round")

		go st.nextRound(ivp, lvps.PreviousBlockForNextRound(ivp))

		return nil
	default:
		if m := lavp.BallotMajority(); m == nil || !ivp.BallotMajority().PreviousBlock().Equal(m.NewBlock()) {
			// NOTE local stored block is different with other nodes
			st.Log().Debug().
				Stringer("previous_block", ivp.BallotMajority().PreviousBlock()).
				Interface("majority", m).
				Msg("previous block does not match with last accept voteproof; moves to syncing")

			return newSyncingSwitchContextWithVoteproof(st.stt, ivp)
		}
	}

	// NOTE suffrage sign voting
	switch keep, err := st.checkSuffrageVoting(ivp); {
	case err != nil:
		return err
	case !keep:
		return nil
	default:
		go st.whenNewBlockConfirmed(lavp)

		process, err := st.processProposal(ivp)
		if err != nil {
			return err
		}

		go process()

		return nil
	}
}

func (st *voteproofHandler) newACCEPTVoteproofWithLastINITVoteproof(
	avp base.ACCEPTVoteproof, lvps isaac.LastVoteproofs,
) error {
	livp := lvps.Cap().(base.INITVoteproof) //nolint:forcetypeassert //...

	switch {
	case avp.Point().Point.Equal(livp.Point().Point): // NOTE expected accept voteproof
		if avp.Result() == base.VoteResultMajority {
			switch saved, err := st.saveBlock(avp); {
			case err != nil:
				return err
			case !saved:
			default:
				return nil
			}
		}

		go st.nextRound(avp, lvps.PreviousBlockForNextRound(avp))

		return nil
	case avp.Point().Height() > livp.Point().Height():
	case avp.Result() == base.VoteResultDraw:
		go st.nextRound(avp, lvps.PreviousBlockForNextRound(avp))

		return nil
	}

	return newSyncingSwitchContextWithVoteproof(st.stt, avp)
}

func (st *voteproofHandler) newACCEPTVoteproofWithLastACCEPTVoteproof(
	avp base.ACCEPTVoteproof, lvps isaac.LastVoteproofs,
) error {
	lavp := lvps.Cap().(base.ACCEPTVoteproof) //nolint:forcetypeassert //...

	switch {
	case avp.Point().Height() > lavp.Point().Height():
		st.Log().Debug().Msg("higher accept voteproof; moves to syncing state")

		return newSyncingSwitchContextWithVoteproof(st.stt, avp)
	case avp.Result() == base.VoteResultDraw:
		st.Log().Debug().Msg("new accept voteproof draw; moves to next round")

		go st.nextRound(avp, lvps.PreviousBlockForNextRound(avp))

		return nil
	default:
		return newSyncingSwitchContextWithVoteproof(st.stt, avp)
	}
}

func (st *voteproofHandler) nextRound(vp base.Voteproof, previousBlock util.Hash) {
	point := vp.Point().Point.NextRound()

	l := st.Log().With().Str("voteproof", vp.ID()).Object("point", point).Logger()

	var suf base.Suffrage

	var sctx switchContext

	switch i, err := st.localIsInConsensusNodes(point.Height().SafePrev()); {
	case errors.As(err, &sctx):
		go st.switchState(sctx)

		return
	case err != nil:
		l.Debug().Err(err).Msg("failed to prepare next round; moves to broken state")

		go st.switchState(newBrokenSwitchContext(st.stt, err))
	default:
		suf = i
	}

	if err := st.args.prepareNextRoundBallot(
		vp, previousBlock,
		suf,
		st.args.WaitPreparingINITBallot(),
	); err != nil {
		l.Error().Err(err).Msg("next round ballot")

		return
	}
}

func (st *voteproofHandler) saveBlock(avp base.ACCEPTVoteproof) (bool, error) {
	facthash := avp.BallotMajority().Proposal()

	l := st.Log().With().Str("voteproof", avp.ID()).Logger()
	ll := l.With().Stringer("fact", facthash).Logger()

	ll.Debug().Msg("expected accept voteproof; trying to save proposal")

	switch bm, err := st.args.ProposalProcessors.Save(context.Background(), facthash, avp); {
	case err == nil:
		ll.Debug().Msg("processed proposal saved; moves to next block")

		go st.whenNewBlockSaved(bm, avp)
		go st.nextBlock(avp)

		return true, nil
	case errors.Is(err, isaac.ErrProcessorAlreadySaved):
		l.Debug().Msg("already saved")

		return false, nil
	case errors.Is(err, isaac.ErrNotProposalProcessorProcessed):
		l.Debug().Msg("no processed proposal; moves to syncing state")

		return false, newSyncingSwitchContextWithVoteproof(st.stt, avp)
	default:
		ll.Error().Err(err).Msg("failed to save proposal; moves to broken state")

		return false, newBrokenSwitchContext(st.stt, err)
	}
}

func (st *voteproofHandler) nextBlock(avp base.ACCEPTVoteproof) {
	point := avp.Point().Point.NextHeight()

	l := st.Log().With().Str("voteproof", avp.ID()).Object("point", point).Logger()

	var suf base.Suffrage

	var sctx switchContext

	switch i, err := st.localIsInConsensusNodes(avp.Point().Height()); {
	case errors.As(err, &sctx):
		go st.switchState(sctx)

		return
	case err != nil:
		l.Debug().Err(err).Msg("failed to prepare next block; moves to broken state")

		go st.switchState(newBrokenSwitchContext(StateConsensus, err))
	default:
		suf = i
	}

	if err := st.args.prepareNextBlockBallot(avp, suf, st.args.WaitPreparingINITBallot()); err != nil {
		l.Debug().Err(err).Msg("failed to prepare next block ballot")

		return
	}
}

func (st *voteproofHandler) checkSuffrageVoting(ivp base.INITVoteproof) (bool, error) {
	if _, ok := ivp.(base.ExpelVoteproof); !ok {
		return true, nil
	}

	switch t := ivp.Majority().(type) {
	case isaac.INITBallotFact:
		go st.args.prepareSuffrageConfirmBallot(ivp)

		return false, nil
	case isaac.SuffrageConfirmBallotFact:
		return true, nil
	default:
		return false, errors.Errorf("expected SuffrageConfirmBallotFact, but %T", t)
	}
}

func (st *voteproofHandler) checkStuckVoteproof(
	vp base.Voteproof,
	lvps isaac.LastVoteproofs,
) (bool, error) {
	if _, ok := vp.(base.StuckVoteproof); !ok {
		return true, nil
	}

	lvp := lvps.Cap()

	expectedheight := lvp.Point().Height()

	if lvp.Point().Stage() == base.StageACCEPT {
		expectedheight++
	}

	switch {
	case vp.Point().Height() > expectedheight:
		st.Log().Debug().
			Func(base.VoteproofLogFunc("init_voteproof", vp)).
			Func(base.VoteproofLogFunc("last_voteproof", lvp)).
			Msg("higher init stuck voteproof; moves to syncing state")

		return false, newSyncingSwitchContextWithVoteproof(st.stt, vp)
	default:
		st.Log().Debug().
			Func(base.VoteproofLogFunc("init_voteproof", vp)).
			Func(base.VoteproofLogFunc("last_voteproof", lvp)).
			Msg("stuck voteproof; moves to next round")

		go st.nextRound(vp, lvps.PreviousBlockForNextRound(vp))

		return false, nil
	}
}

func (st *voteproofHandler) whenNewBlockSaved(bm base.BlockMap, vp base.ACCEPTVoteproof) {
	st.args.whenNewBlockSaved(bm, vp)

	if _, hasExpels := vp.(base.HasExpels); !hasExpels {
		st.args.WhenNewBlockConfirmed(vp.Point().Height())
	}

	st.args.WhenNewBlockSaved(bm)
}

func (st *voteproofHandler) whenNewBlockConfirmed(vp base.ACCEPTVoteproof) {
	if _, ok := vp.(base.HasExpels); ok {
		st.args.WhenNewBlockConfirmed(vp.Point().Height())
	}
}

func (st *voteproofHandler) wrongACCEPTBallot(_ context.Context, ivp base.INITVoteproof) error {
	fact := isaac.NewNotProcessedACCEPTBallotFact(ivp.Point().Point, ivp.BallotMajority().Proposal())

	if err := st.args.prepareACCEPTBallot(ivp, nil, time.Nanosecond, fact); err != nil {
		return errors.WithMessage(err, "prepare intended wrong accept ballot")
	}

	return nil
}

func (st *voteproofHandler) setAllowConsensus(allow bool) bool {
	changed := st.baseBallotHandler.setAllowConsensus(allow)

	if st.sts == nil && changed {
		st.whenSetAllowConsensus(allow)
	}

	return changed
}

func (st *voteproofHandler) whenSetAllowConsensus(allow bool) { // revive:disable-line:flag-parameter
	st.baseBallotHandler.whenSetAllowConsensus(allow)

	if sctx := st.args.checkInState(nil); sctx != nil {
		go st.switchState(sctx)
	}
}

func (st *voteproofHandler) enterWithNewVoteproof(vp base.Voteproof, lvps isaac.LastVoteproofs) {
	defer st.vplock.Unlock() // NOTE locks at deferred func of enter()

	var nsctx switchContext

	if err := st.newVoteproofWithLVPS(vp, lvps); err != nil {
		switch {
		case !errors.As(err, &nsctx):
			st.Log().Error().Err(err).Msg("failed to process enter voteproof; moves to broken state")

			go st.switchState(newBrokenSwitchContext(st.stt, err))
		default:
			go st.switchState(nsctx)
		}

		return
	}

	var lvp base.Voteproof

	if st.sts != nil {
		lvp = st.sts.args.Ballotbox.LastVoteproof()
	}

	if lvp != nil { // NOTE pick up the latest voteproof after finishing handover
		if err := st.handleNewVoteproof(lvp); err != nil {
			switch {
			case !errors.As(err, &nsctx):
				st.Log().Error().Err(err).Msg("failed to process last voteproof of ballotbox; moves to broken state")

				go st.switchState(newBrokenSwitchContext(st.stt, err))

				return
			default:
				go st.switchState(nsctx)

				return
			}
		}
	}
}
