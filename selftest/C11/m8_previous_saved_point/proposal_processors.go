package isaac

import (
	"context"
	"sync"
	"time"

	"github.com/pkg/errors"
	"github.com/rs/zerolog"
	"github.com/spikeekips/mitum/base"
	"github.com/spikeekips/mitum/util"
	"github.com/spikeekips/mitum/util/logging"
)

// ErrIgnoreErrorProposalProcessor ignores error from proposalProcessor, it means
// not ErrIgnoreErrorProposalProcessor from proposalProcessor will break
// consensus.
var (
	ErrIgnoreErrorProposalProcessor  = util.NewIDError("proposal processor somthing wrong; ignore")
	ErrNotProposalProcessorProcessed = util.NewIDError("proposal processor not processed")
)

type ProcessorProcessFunc func(context.Context) (base.Manifest, error)

type ProposalProcessors struct {
	p ProposalProcessor
	*logging.Logging
	makenew       func(proposal base.ProposalSignFact, previous base.Manifest) (ProposalProcessor, error)
	getproposal   func(_ context.Context, _ base.Point, proposalFactHash util.Hash) (base.ProposalSignFact, error)
	retryinterval time.Duration
	retrylimit    int
	l             sync.RWMutex
	previousSaved base.Point
}

func NewProposalProcessors(
	makenew func(base.ProposalSignFact, base.Manifest) (ProposalProcessor, error),
	getproposal func(context.Context, base.Point, util.Hash) (base.ProposalSignFact, error),
) *ProposalProcessors {
	return &ProposalProcessors{
		Logging: logging.NewLogging(func(lctx zerolog.Context) zerolog.Context {
			return lctx.Str("module", "proposal-processors")
		}),
		makenew:     makenew,
		getproposal: getproposal,
		// NOTE endure failure for almost 9 seconds, it is almost 3 consensus
		// cycle.
		retrylimit:    15,                     //nolint:mnd //...
		retryinterval: time.Millisecond * 600, //nolint:mnd //...
		previousSaved: base.ZeroPoint,
	}
}

func (pps *ProposalProcessors) Processor() ProposalProcessor {
	pps.l.RLock()
	defer pps.l.RUnlock()

	return pps.p
}

func (pps *ProposalProcessors) Process(
	ctx context.Context,
	point base.Point,
	facthash util.Hash,
	previous base.Manifest,
	ivp base.INITVoteproof,
) (ProcessorProcessFunc, error) {
	pps.l.Lock()

	l := pps.Log().With().Stringer("point", point).Stringer("fact", facthash).Logger()

	e := util.StringError("process proposal, %q", facthash)

	p, err := pps.newProcessor(ctx, point, facthash, previous)

	switch {
	case err != nil:
		pps.l.Unlock()

		l.Error().Err(err).Msg("failed to process proposal")

		return nil, e.Wrap(err)
	case p == nil:
		pps.l.Unlock()

		return nil, nil
	}

	ch := make(chan [2]interface{}, 1)

	go func() {
		defer pps.l.Unlock()

		m, err := pps.runProcessor(ctx, p, ivp)

		ch <- [2]interface{}{m, err}
	}()

	return func(ctx context.Context) (base.Manifest, error) {
		select {
		case <-ctx.Done():
			return nil, errors.WithStack(ctx.Err())
		case i := <-ch:
			j, k := i[0], i[1]

			var err error

			if k != nil {
				err = k.(error) //nolint:forcetypeassert //...
				if errors.Is(err, context.Canceled) ||
					errors.Is(err, context.DeadlineExceeded) { // NOTE ignore context errors
					return nil, ErrNotProposalProcessorProcessed.Wrap(err)
				}
			}

			var m base.Manifest

			if j != nil {
				m = j.(base.Manifest) //nolint:forcetypeassert //...
			}

			return m, err
		}
	}, nil
}

func (pps *ProposalProcessors) Save(
	ctx context.Context, facthash util.Hash, avp base.ACCEPTVoteproof,
) (base.BlockMap, error) {
	pps.l.Lock()
	defer pps.l.Unlock()

	switch m, err := pps.save(ctx, facthash, avp); {
	case err != nil:
		if pps.p != nil {
			_ = pps.p.Cancel()

			pps.p = nil
		}

		return nil, errors.WithMessage(err, "save proposal")
	default:
		if pps.p != nil {
			pps.p = nil
		}

		return m, nil
	}
}

func (pps *ProposalProcessors) save(
	ctx context.Context, facthash util.Hash, avp base.ACCEPTVoteproof,
) (base.BlockMap, error) {
	point := avp.Point().Point

	l := pps.Log().With().Stringer("point", point).Stringer("fact", facthash).Logger()

	if point.Compare(pps.previousSaved) <= 0 {
		l.Debug().Stringer("previous", pps.previousSaved).Msg("already saved")

		return nil, ErrProcessorAlreadySaved.WithStack()
	}

	switch {
	case pps.p == nil:
		l.Debug().Msg("proposal processor not found")

		return nil, ErrNotProposalProcessorProcessed
	case !pps.p.Proposal().Fact().Hash().Equal(facthash):
		l.Debug().Msg("proposal processor not found")

		return nil, ErrNotProposalProcessorProcessed
	}

	pps.previousSaved = point

	switch bm, err := pps.p.Save(ctx, avp); {
	case err == nil:
		l.Debug().Msg("proposal processed and saved")

		return bm, nil
	case errors.Is(err, context.Canceled):
		l.Error().Err(err).Msg("proposal processed canceled")

		return nil, ErrNotProposalProcessorProcessed
	default:
		l.Error().Err(err).Msg("failed to save proposal processed")

		return nil, err
	}
}

func (pps *ProposalProcessors) Cancel() error {
	pps.l.Lock()
	defer pps.l.Unlock()

	if pps.p != nil {
		if err := pps.p.Cancel(); err != nil {
			return errors.Wrap(err, "cancel")
		}
	}

	pps.p = nil

	return nil
}

func (pps *ProposalProcessors) SetRetryLimit(l int) *ProposalProcessors {
	pps.retrylimit = l

	return pps
}

func (pps *ProposalProcessors) SetRetryInterval(i time.Duration) *ProposalProcessors {
	pps.retryinterval = i

	return pps
}

func (pps *ProposalProcessors) fetchFact(
	ctx context.Context, point base.Point, facthash util.Hash,
) (base.ProposalSignFact, error) {
	e := util.StringError("fetch fact")

	var pr base.ProposalSignFact

	err := util.Retry(
		ctx,
		func() (bool, error) {
			j, err := pps.getproposal(ctx, point, facthash)

			switch {
			case err == nil:
				pr = j

				return false, nil
			default:
				return true, e.WithMessage(err, "get proposal fact")
			}
		},
		pps.retrylimit,
		pps.retryinterval,
	)

	return pr, err
}

func (pps *ProposalProcessors) newProcessor(
	ctx context.Context, point base.Point, facthash util.Hash, previous base.Manifest,
) (ProposalProcessor, error) {
	e := util.StringError("processor, %q", facthash)

	l := pps.Log().With().Stringer("point", point).Stringer("fact", facthash).Logger()

	if pps.p != nil {
		p := pps.p
		if p.Proposal().Fact().Hash().Equal(facthash) {
			l.Debug().Msg("proposal already processed")

			return nil, nil
		}

		if err := p.Cancel(); err != nil {
			l.Debug().
				Err(err).
				Stringer("previous_processor", p.Proposal().Fact().Hash()).
				Msg("failed to cancel previous running processor")

			return nil, e.Wrap(err)
		}
	}

	// NOTE fetch proposal fact
	fact, err := pps.fetchFact(ctx, point, facthash)

	// NOTE if failed to get fact, returns NotProposalProcessorProcessedError
	switch {
	case err != nil:
		return nil, e.WithMessage(ErrNotProposalProcessorProcessed.Wrap(err), "get proposal fact")
	case fact == nil:
		return nil, e.WithMessage(ErrNotProposalProcessorProcessed, "get proposal fact; empty fact")
	}

	if err := util.Retry(ctx, func() (bool, error) {
		switch i, err := pps.makenew(fact, previous); {
		case err != nil:
			return true, err
		default:
			pps.p = i

			return false, nil
		}
	}, pps.retrylimit, pps.retryinterval); err != nil {
		return nil, e.Wrap(err)
	}

	if l, ok := pps.p.(logging.SetLogging); ok {
		_ = l.SetLogging(pps.Logging)
	}

	return pps.p, nil
}

func (*ProposalProcessors) runProcessor(
	ctx context.Context, p ProposalProcessor, ivp base.INITVoteproof,
) (base.Manifest, error) {
	manifest, err := p.Process(ctx, ivp)

	switch {
	case err == nil:
		return manifest, nil
	case errors.Is(err, ErrIgnoreErrorProposalProcessor):
		return nil, nil
	default:
		if e := p.Cancel(); e != nil {
			return nil, errors.Wrap(e, "run processor")
		}

		return nil, err
	}
}
