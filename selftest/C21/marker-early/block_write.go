package isaacdatabase

import (
	"bytes"
	"context"
	"math"
	"sync"

	"github.com/pkg/errors"
	"github.com/spikeekips/mitum/base"
	"github.com/spikeekips/mitum/isaac"
	"github.com/spikeekips/mitum/storage"
	leveldbstorage "github.com/spikeekips/mitum/storage/leveldb"
	"github.com/spikeekips/mitum/util"
	"github.com/spikeekips/mitum/util/encoder"
	"github.com/syndtr/goleveldb/leveldb"
	leveldbutil "github.com/syndtr/goleveldb/leveldb/util"
)

type LeveldbBlockWrite struct {
	*baseLeveldb
	mp                    *util.Locked[[3]interface{}]
	sufst                 *util.Locked[base.State]
	policy                *util.Locked[base.State]
	proof                 *util.Locked[[3]interface{}]
	laststates            *util.ShardedMap[string, base.Height]
	stcache               util.GCache[string, [2]interface{}]
	instateoperationcache util.LockedMap[string, bool]
	batchAddf             func(func(leveldbstorage.LeveldbBatch), func(func() error) error) error
	batchDonef            func(func(func() error) error) error
	batchCancelf          func()
	height                base.Height
	l                     sync.Mutex
}

func NewLeveldbBlockWrite(
	height base.Height,
	st *leveldbstorage.Storage,
	encs *encoder.Encoders,
	enc encoder.Encoder,
) *LeveldbBlockWrite {
	pst := leveldbstorage.NewPrefixStorage(st, newPrefixStoragePrefixByHeight(leveldbLabelBlockWrite, height))

	laststates, _ := util.NewShardedMap[string, base.Height](math.MaxInt8, nil)

	batchAdd, batchDone, batchCancel := pst.BatchFunc(
		context.Background(), 1<<7, nil) //nolint:mnd // TODO configurable

	return &LeveldbBlockWrite{
		baseLeveldb:           newBaseLeveldb(pst, encs, enc),
		height:                height,
		mp:                    util.EmptyLocked[[3]interface{}](),
		sufst:                 util.EmptyLocked[base.State](),
		policy:                util.EmptyLocked[base.State](),
		proof:                 util.EmptyLocked[[3]interface{}](),
		laststates:            laststates,
		instateoperationcache: util.NewSingleLockedMap[string, bool](),
		batchAddf:             batchAdd,
		batchDonef:            batchDone,
		batchCancelf:          batchCancel,
	}
}

func (db *LeveldbBlockWrite) Close() error {
	db.l.Lock()
	defer db.l.Unlock()

	if db.mp == nil {
		return nil
	}

	db.clean()

	return nil
}

func (db *LeveldbBlockWrite) Write() error {
	db.l.Lock()
	defer db.l.Unlock()

	db.laststates.Close()

	return db.batchDone()
}

func (db *LeveldbBlockWrite) clean() {
	db.mp.EmptyValue()
	db.sufst.EmptyValue()
	db.policy.EmptyValue()
	db.proof.EmptyValue()
	db.mp = nil
	db.sufst = nil
	db.policy = nil
	db.proof = nil

	if db.laststates != nil {
		db.laststates.Close()
	}

	db.batchCancelf()
}

func (db *LeveldbBlockWrite) Cancel() error {
	db.l.Lock()
	defer db.l.Unlock()

	if db.mp == nil {
		return nil
	}

	db.clean()

	if db.stcache != nil {
		db.stcache.Purge()
	}

	db.instateoperationcache.Close()

	return nil
}

func (db *LeveldbBlockWrite) SetStateCache(c util.GCache[string, [2]interface{}]) {
	db.stcache = c
}

func (db *LeveldbBlockWrite) SetStates(sts []base.State) error {
	switch i := len(sts); {
	case i < 1:
		return nil
	case i == 1:
		return db.setState(sts[0])
	}

	e := util.StringError("set states in TempLeveldbDatabase")

	worker, err := util.NewBaseJobWorker(context.Background(), int64(len(sts)))
	if err != nil {
		return e.Wrap(err)
	}

	defer worker.Close()

	for i := range sts {
		st := sts[i]

		if err := worker.NewJob(func(context.Context, uint64) error {
			return db.setState(st)
		}); err != nil {
			return e.Wrap(err)
		}
	}

	worker.Done()

	if err := worker.Wait(); err != nil {
		return e.Wrap(err)
	}

	return nil
}

func (db *LeveldbBlockWrite) SetOperations(ops []util.Hash) error {
	if len(ops) < 1 {
		return nil
	}

	e := util.StringError("set operation")

	for i := range ops {
		op := ops[i]
		if op == nil {
			return e.Errorf("empty operation hash")
		}

		if err := db.batchAdd(leveldbKnownOperationKey(op), op.Bytes()); err != nil {
			return e.Wrap(err)
		}
	}

	return nil
}

func (db *LeveldbBlockWrite) BlockMap() (base.BlockMap, error) {
	switch i, _, _ := db.blockmaps(); {
	case i == nil:
		return nil, storage.ErrNotFound.Errorf("empty blockmap")
	default:
		return i, nil
	}
}

func (db *LeveldbBlockWrite) BlockMapBytes() (enchint string, meta, body []byte, err error) {
	switch _, meta, i := db.blockmaps(); {
	case i == nil:
		return enchint, nil, nil, storage.ErrNotFound.Errorf("empty blockmap")
	default:
		return db.enc.Hint().String(), meta, i, nil //nolint:forcetypeassert //...
	}
}

func (db *LeveldbBlockWrite) SetBlockMap(m base.BlockMap) error {
	if m.Manifest().Height() != db.height {
		return errors.Errorf("wrong height of BlockMap")
	}

	pst, err := db.st()
	if err != nil {
		return err
	}

	if _, err := db.mp.Set(func(i [3]interface{}, isempty bool) (v [3]interface{}, _ error) {
		if !isempty {
			if m.Manifest().Height() <= i[0].(base.BlockMap).Manifest().Height() { //nolint:forcetypeassert //...
				return v, util.ErrLockedSetIgnore
			}
		}

		meta := m.Manifest().Hash().Bytes()

		switch marshaled, b, err := EncodeOneHeaderFrame(db.enc, meta, m); {
		case err != nil:
			return v, err
		default:
			if err := pst.Put(leveldbBlockMapKey(m.Manifest().Height()), b, nil); err != nil {
				return v, err
			}

			if err := pst.Put(leveldbTempMergedKey(m.Manifest().Height()), nil, nil); err != nil {
				return v, err
			}

			return [3]interface{}{m, meta, marshaled}, nil
		}
	}); err != nil {
		return errors.Wrap(err, "set blockmap")
	}

	return nil
}

func (db *LeveldbBlockWrite) SuffrageState() base.State {
	i, _ := db.sufst.Value()

	return i
}

func (db *LeveldbBlockWrite) NetworkPolicy() base.NetworkPolicy {
	i, _ := db.policy.Value()
	if i == nil {
		return nil
	}

	return i.Value().(base.NetworkPolicyStateValue).Policy() //nolint:forcetypeassert //...
}

func (db *LeveldbBlockWrite) SetSuffrageProof(proof base.SuffrageProof) error {
	pst, err := db.st()
	if err != nil {
		return err
	}

	if _, err := db.proof.Set(func(i [3]interface{}, isempty bool) (v [3]interface{}, _ error) {
		switch {
		case isempty:
		case proof.SuffrageHeight() <= i[0].(base.SuffrageProof).SuffrageHeight(): //nolint:forcetypeassert //...
			return v, util.ErrLockedSetIgnore
		}

		var meta []byte
		if proof.Map().Manifest().Suffrage() != nil {
			meta = proof.Map().Manifest().Suffrage().Bytes()
		}

		switch marshaled, b, err := EncodeOneHeaderFrame(db.enc, meta, proof); {
		case err != nil:
			return v, err
		default:
			if err := pst.Put(leveldbSuffrageProofKey(proof.SuffrageHeight()), b, nil); err != nil {
				return v, err
			}

			if err := pst.Put(
				leveldbSuffrageProofByBlockHeightKey(proof.Map().Manifest().Height()), b, nil); err != nil {
				return v, err
			}

			return [3]interface{}{proof, meta, marshaled}, nil
		}
	}); err != nil {
		return errors.Wrap(err, "set SuffrageProof")
	}

	return nil
}

func (db *LeveldbBlockWrite) TempDatabase() (isaac.TempDatabase, error) {
	e := util.StringError("make TempDatabase from BlockWriteDatabase")

	temp, err := func() (isaac.TempDatabase, error) {
		db.l.Lock()
		defer db.l.Unlock()

		if _, err := db.BlockMap(); err != nil {
			return nil, err
		}

		temp, err := newTempLeveldbFromBlockWriteStorage(db)
		if err != nil {
			return nil, errors.WithMessage(err, "new TempLeveldbDatabase from TempLeveldbDatabase")
		}

		return temp, nil
	}()
	if err != nil {
		return nil, e.Wrap(err)
	}

	if err := db.Close(); err != nil {
		return nil, e.Wrap(err)
	}

	return temp, nil
}

func (db *LeveldbBlockWrite) blockmaps() (base.BlockMap, []byte, []byte) {
	switch i, isempty := db.mp.Value(); {
	case isempty:
		return nil, nil, nil
	default:
		return i[0].(base.BlockMap), i[1].([]byte), i[2].([]byte) //nolint:forcetypeassert //...
	}
}

func (db *LeveldbBlockWrite) proofs() (base.SuffrageProof, []byte, []byte) {
	switch i, isempty := db.proof.Value(); {
	case isempty:
		return nil, nil, nil
	default:
		return i[0].(base.SuffrageProof), i[1].([]byte), i[2].([]byte) //nolint:forcetypeassert //...
	}
}

func (db *LeveldbBlockWrite) setState(st base.State) error {
	e := util.StringError("set state")

	if !db.isLastStates(st) {
		return nil
	}

	b, err := EncodeFrameState(db.enc, st)
	if err != nil {
		return err
	}

	switch {
	case base.IsSuffrageNodesState(st) && st.Key() == isaac.SuffrageStateKey:
		db.updateLockedStates(st, db.sufst)
	case base.IsNetworkPolicyState(st) && st.Key() == isaac.NetworkPolicyStateKey:
		db.updateLockedStates(st, db.policy)
	}

	if err := db.batchAdd(leveldbStateKey(st.Key()), b); err != nil {
		return e.Wrap(err)
	}

	if db.stcache != nil {
		db.stcache.Set(st.Key(), [2]interface{}{st, true}, 0)
	}

	return util.TraverseSlice(st.Operations(), func(_ int, op util.Hash) error {
		if err := db.batchAdd(leveldbInStateOperationKey(op), []byte(op.String())); err != nil {
			return err
		}

		_ = db.instateoperationcache.SetValue(op.String(), true)

		return nil
	})
}

func (db *LeveldbBlockWrite) isLastStates(st base.State) bool {
	var islast bool
	_, _, _ = db.laststates.Set(st.Key(), func(i base.Height, found bool) (base.Height, error) {
		if found && st.Height() <= i {
			return base.NilHeight, errors.Errorf("old")
		}

		islast = true

		return st.Height(), nil
	})

	return islast
}

func (*LeveldbBlockWrite) updateLockedStates(st base.State, locked *util.Locked[base.State]) {
	_, _ = locked.Set(func(i base.State, _ bool) (base.State, error) {
		if i != nil && st.Height() <= i.Height() {
			return i, nil
		}

		return st, nil
	})
}

func (db *LeveldbBlockWrite) batchAdd(key, b []byte) error {
	return db.batchAddf(
		func(batch leveldbstorage.LeveldbBatch) {
			batch.Put(key, b)
		},
		func(f func() error) error {
			return f()
		},
	)
}

func (db *LeveldbBlockWrite) batchDone() error {
	return db.batchDonef(func(f func() error) error {
		return f()
	})
}

var (
	prefixStoragePrefixByHeightLength int = 10 + util.ULIDLen // len(label) + len(int64 bytes) + len(ULID.String())
	emptyULID                             = bytes.Repeat([]byte{0x00}, util.ULIDLen)
)

func newPrefixStoragePrefixByHeight(label leveldbstorage.KeyPrefix, height base.Height) []byte {
	return leveldbstorage.NewPrefixKey(label, height.Bytes(), []byte(util.ULID().String()))
}

func emptyPrefixStoragePrefixByHeight(label leveldbstorage.KeyPrefix, height base.Height) []byte {
	return leveldbstorage.NewPrefixKey(label, height.Bytes(), emptyULID)
}

func prefixStoragePrefixFromKey(b []byte) ([]byte, error) {
	if len(b) < prefixStoragePrefixByHeightLength {
		return nil, errors.Errorf("wrong key of prefix storage prefix")
	}

	return b[:prefixStoragePrefixByHeightLength], nil
}

// removeHigherHeights removes all the BlockWrite labeled data higher than
// height; including height
func removeHigherHeights(st *leveldbstorage.Storage, height base.Height) error {
	batch := &leveldb.Batch{}
	defer batch.Reset()

	r := leveldbutil.BytesPrefix(leveldbLabelBlockWrite[:])
	r.Start = emptyPrefixStoragePrefixByHeight(leveldbLabelBlockWrite, height)

	if _, err := leveldbstorage.BatchRemove(st, r, 333); err != nil { //nolint:mnd //...
		return errors.WithMessage(err, "remove higher heights")
	}

	return nil
}
