package isaacstates

import (
	"context"
	"time"

	"github.com/pkg/errors"
	"github.com/spikeekips/mitum/base"
	"github.com/spikeekips/mitum/isaac"
	"github.com/spikeekips/mitum/storage"
	"github.com/spikeekips/mitum/util"
)

type SuffrageVotingFindFunc func(context.Context, base.Height, base.Suffrage) ([]base.SuffrageExpelOperation, error)

type baseBallotHandlerArgs struct {
	ProposalSelectFunc         isaac.ProposalSelectFunc
	NodeInConsensusNodesFunc   isaac.NodeInConsensusNodesFunc
	VoteFunc                   func(base.Ballot) (bool, error)
	SuffrageVotingFindFunc     SuffrageVotingFindFunc
	IntervalBroadcastBallot    func() time.Duration
	WaitPreparingINITBallot    func() time.Duration
	MinWaitNextBlockINITBallot func() time.Duration
	NewINITBallotFactFunc      func(
		_ context.Context,
		point base.Point,
		previousBlock util.Hash,
		proposal base.ProposalSignFact,
		expelfacts []util.Hash,
	) (base.INITBallotFact, error)
	IsEmptyProposalNoBlockFunc func() bool
	IsEmptyProposalFunc        func(context.Context, base.ProposalSignFact) (bool, error)
}

func newBaseBallotHandlerArgs() baseBallotHandlerArgs {
	return baseBallotHandlerArgs{
		NodeInConsensusNodesFunc: func(base.Node, base.Height) (base.Suffrage, bool, error) {
			return nil, false, util.ErrNotImplemented.Errorf("NodeInConsensusNodesFunc")
		},
		VoteFunc: func(base.Ballot) (bool, error) {
			return false, util.ErrNotImplemented.Errorf("VoteFunc")
		},
		SuffrageVotingFindFunc: func(context.Context, base.Height, base.Suffrage) (
			[]base.SuffrageExpelOperation, error,
		) {
			return nil, util.ErrNotImplemented.Errorf("SuffrageVotingFindFunc")
		},
		IntervalBroadcastBallot: func() time.Duration {
			return isaac.DefaultntervalBroadcastBallot
		},
		WaitPreparingINITBallot: func() time.Duration {
			return isaac.DefaultWaitPreparingINITBallot
		},
		NewINITBallotFactFunc: func(
			_ context.Context,
			point base.Point,
			previousBlock util.Hash,
			proposal base.ProposalSignFact,
			expelfacts []util.Hash,
		) (base.INITBallotFact, error) {
			return isaac.NewINITBallotFact(
				point,
				previousBlock,
				proposal.Fact().Hash(),
				expelfacts,
			), nil
		},
		IsEmptyProposalNoBlockFunc: func() bool { return false },
		IsEmptyProposalFunc:        func(context.Context, base.ProposalSignFact) (bool, error) { return false, nil },
		MinWaitNextBlockINITBallot: func() time.Duration { return time.Second * 2 },
	}
}

func (args *baseBallotHandlerArgs) IsEmptyProposalNoBlock() bool {
	return args.IsEmptyProposalNoBlockFunc()
}

func (args *baseBallotHandlerArgs) IsEmptyProposal(ctx context.Context, pr base.ProposalSignFact) (bool, error) {
	return args.IsEmptyProposalFunc(ctx, pr)
}

type baseBallotHandler struct {
	*baseHandler
	args              *baseBallotHandlerArgs
	ballotBroadcaster BallotBroadcaster
	voteFunc          func(base.Ballot) (bool, error)
	resolver          BallotStuckResolver
}

func newBaseBallotHandlerType(
	state StateType,
	networkID base.NetworkID,
	local base.LocalNode,
	args *baseBallotHandlerArgs,
) baseBallotHandler {
	args.VoteFunc = preventVotingWithEmptySuffrage(
		local,
		args.VoteFunc,
		args.NodeInConsensusNodesFunc,
	)

	return baseBallotHandler{
		baseHandler: newBaseHandlerType(state, networkID, local),
		args:        args,
		voteFunc:    func(base.Ballot) (bool, error) { return false, errors.Errorf("not voted") },
	}
}

func (st baseBallotHandler) new() baseBallotHandler {
	return baseBallotHandler{
		baseHandler:       st.baseHandler.new(),
		args:              st.args,
		resolver:          st.resolver,
		ballotBroadcaster: st.ballotBroadcaster,
	}
}

func (st *baseBallotHandler) setStates(sts *States) {
	st.baseHandler.setStates(sts)
	st.resolver = sts.args.BallotStuckResolver
	st.ballotBroadcaster = sts.args.BallotBroadcaster
	st.bbt = sts.bbt.Clone().SetBroadcasterFunc(func(ctx context.Context, bl base.Ballot) error {
		_ = st.broadcastBallot(ctx, bl)

		return nil
	})
}

func (st *baseBallotHandler) makeNextRoundBallot(
	ctx context.Context,
	vp base.Voteproof,
	prevBlock util.Hash,
	suf base.Suffrage,
	initialWait time.Duration,
) (base.INITBallot, error) {
	bl, err := st.makeINITBallot(
		ctx,
		vp.Point().Point.NextRound(),
		prevBlock,
		vp,
		suf,
		initialWait,
	)
	if err != nil {
		return nil, errors.WithMessage(err, "prepare next round init ballot")
	}

	return bl, nil
}

func (st *baseBallotHandler) makeNextBlockBallot(
	ctx context.Context,
	avp base.ACCEPTVoteproof,
	suf base.Suffrage,
	initialWait time.Duration,
) (base.INITBallot, error) {
	if wait := st.args.MinWaitNextBlockINITBallot(); wait < st.args.WaitPreparingINITBallot() {
		st.Log().Debug().Dur("wait", wait).Msg("wait for next block init balllot")

		select {
		case <-ctx.Done():
			return nil, ctx.Err()
		case <-time.After(wait):
			initialWait -= wait //revive:disable-line:modifies-parameter
		}
	}

	bl, err := st.makeINITBallot(
		ctx,
		avp.Point().Point.NextHeight(),
		avp.BallotMajority().NewBlock(),
		avp,
		suf,
		initialWait,
	)
	if err != nil {
		return nil, errors.WithMessage(err, "prepare next block init ballot")
	}

	return bl, nil
}

func (st *baseBallotHandler) makeINITBallot(
	ctx context.Context,
	point base.Point,
	prevBlock util.Hash,
	vp base.Voteproof,
	suf base.Suffrage,
	initialWait time.Duration,
) (base.INITBallot, error) {
	e := util.StringError("prepare init ballot")

	l := st.Log().With().Str("voteproof", vp.ID()).Object("point", point).Logger()

	switch bl, found, err := st.ballotBroadcaster.Ballot(point, base.StageINIT, false); {
	case err != nil:
		return nil, e.Wrap(err)
	case !found:
	case bl.Voteproof() == nil || bl.Voteproof().ID() != vp.ID():
		// NOTE the ballot in pool was made from the other voteproof; the
		// ballot, based on the old voteproof will not be accepted by the other
		// nodes.
		l.Debug().Msg("init ballot found in ballot pool, but made from the other voteproof; new ballot")
	default:
		l.Debug().Msg("init ballot found in ballot pool")

		return bl.(base.INITBallot), nil //nolint:forcetypeassert //...
	}

	var pr base.ProposalSignFact

	switch i, err := st.requestProposal(ctx, point, prevBlock, initialWait); {
	case err != nil:
		return nil, e.Wrap(err)
	default:
		pr = i
	}

	// NOTE collect suffrage expel operations
	expels, expelfacts, err := st.findExpels(point.Height(), suf)
	if err != nil {
		return nil, err
	}

	// NOTE broadcast next init ballot
	var fact base.INITBallotFact

	switch i, err := st.args.NewINITBallotFactFunc(
		ctx,
		point,
		prevBlock,
		pr,
		expelfacts,
	); {
	case err != nil:
		return nil, e.Wrap(err)
	default:
		fact = i
	}

	sf := isaac.NewINITBallotSignFact(fact)

	if err := sf.NodeSign(st.local.Privatekey(), st.networkID, st.local.Address()); err != nil {
		return nil, e.WithMessage(err, "make next init ballot")
	}

	bl := isaac.NewINITBallot(vp, sf, expels)

	return bl, nil
}

func (st *baseBallotHandler) defaultPrepareACCEPTBallot(
	ivp base.INITVoteproof,
	newBlock util.Hash,
	initialWait time.Duration,
	fact base.ACCEPTBallotFact,
) error {
	e := util.StringError("prepare accept ballot")

	bl, err := st.makeACCEPTBallot(ivp, newBlock, fact)
	if err != nil {
		return e.Wrap(err)
	}

	go func() {
		<-time.After(initialWait)

		switch _, err := st.vote(bl); {
		case err == nil:
		case errors.Is(err, errFailedToVoteNotInConsensus):
			st.Log().Debug().Err(err).Msg("failed to vote accept ballot; moves to syncing state")

			go st.switchState(newSyncingSwitchContextWithVoteproof(StateConsensus, ivp))
		default:
			st.Log().Error().Err(err).Msg("failed to vote accept ballot; moves to broken state")

			go st.switchState(newBrokenSwitchContext(StateConsensus, err))
		}
	}()

	if err := st.bbt.ACCEPT(bl, initialWait); err != nil {
		return e.WithMessage(err, "broadcast accept ballot")
	}

	return nil
}

func (st *baseBallotHandler) makeACCEPTBallot(
	ivp base.INITVoteproof,
	newBlock util.Hash,
	fact base.ACCEPTBallotFact,
) (base.ACCEPTBallot, error) {
	switch bl, found, err := st.ballotBroadcaster.Ballot(ivp.Point().Point, base.StageACCEPT, false); {
	case err != nil:
		return nil, err
	case found:
		st.Log().Debug().Str("voteproof", ivp.ID()).Msg("accept ballot found in ballot pool")

		return bl.(base.ACCEPTBallot), nil //nolint:forcetypeassert //...
	}

	var expels []base.SuffrageExpelOperation
	afact := fact

	if fact == nil {
		// NOTE add SuffrageExpelOperations into ballot from init voteproof
		var expelfacts []util.Hash

		if i, ok := ivp.(base.ExpelVoteproof); ok {
			expels = i.Expels()

			expelfacts = make([]util.Hash, len(expels))

			for i := range expels {
				expelfacts[i] = expels[i].ExpelFact().Hash()
			}
		}

		afact = isaac.NewACCEPTBallotFact(
			ivp.Point().Point,
			ivp.BallotMajority().Proposal(),
			newBlock,
			expelfacts,
		)
	}

	signfact := isaac.NewACCEPTBallotSignFact(afact)

	if err := signfact.NodeSign(st.local.Privatekey(), st.networkID, st.local.Address()); err != nil {
		return nil, err
	}

	bl := isaac.NewACCEPTBallot(ivp, signfact, expels)

	return bl, nil
}

func (st *baseBallotHandler) defaultPrepareSuffrageConfirmBallot(vp base.Voteproof) {
	l := st.Log().With().Str("voteproof", vp.ID()).Logger()

	if _, err := util.AssertInterfaceValue[base.ExpelVoteproof](vp); err != nil {
		l.Error().Err(err).Msg("wrong ExpelVoteproof for suffrage sign voting")

		return
	}

	bl, err := st.makeSuffrageConfirmBallot(vp)
	if err != nil {
		l.Error().Err(err).Msg("failed to prepare suffrage confirm ballot")

		return
	}

	go func() {
		switch _, err := st.vote(bl); {
		case err == nil:
		case errors.Is(err, errFailedToVoteNotInConsensus):
			st.Log().Debug().Err(err).Msg("failed to vote suffrage confirm ballot; moves to syncing state")

			go st.switchState(newSyncingSwitchContextWithVoteproof(StateConsensus, vp))
		default:
			st.Log().Debug().Err(err).Msg("failed to vote suffrage confirm ballot; moves to broken state")

			go st.switchState(newBrokenSwitchContext(StateConsensus, err))
		}
	}()

	if err := st.bbt.SuffrageConfirm(bl, 0); err != nil {
		l.Error().Err(err).Msg("failed to prepare suffrage confirm ballot")

		return
	}

	l.Debug().Interface("ballot", bl).Msg("suffrage confirm ballot broadcasted")
}

func (st *baseBallotHandler) makeSuffrageConfirmBallot(vp base.Voteproof) (base.INITBallot, error) {
	switch bl, found, err := st.ballotBroadcaster.Ballot(vp.Point().Point, base.StageINIT, true); {
	case err != nil:
		return nil, err
	case found:
		st.Log().Debug().
			Str("voteproof", vp.ID()).
			Object("point", vp.Point().Point).
			Msg("init suffrage confirm ballot found in ballot pool")

		return bl.(base.INITBallot), nil //nolint:forcetypeassert //...
	}

	ifact := vp.Majority().(isaac.INITBallotFact) //nolint:forcetypeassert //...
	expelfacts := ifact.ExpelFacts()

	fact := isaac.NewSuffrageConfirmBallotFact(
		vp.Point().Point,
		ifact.PreviousBlock(),
		ifact.Proposal(),
		expelfacts,
	)

	sf := isaac.NewINITBallotSignFact(fact)

	if err := sf.NodeSign(st.local.Privatekey(), st.networkID, st.local.Address()); err != nil {
		go st.switchState(
			newBrokenSwitchContext(st.stt, errors.WithMessage(err, "make suffrage confirm ballot")),
		)

		return nil, err
	}

	bl := isaac.NewINITBallot(vp, sf, nil)

	return bl, nil
}

func (st *baseBallotHandler) vote(bl base.Ballot) (bool, error) {
	voted, err := st.args.VoteFunc(bl)
	if err != nil {
		return voted, err
	}

	if voted && st.resolver != nil {
		_ = st.resolver.NewPoint(st.ctx, bl.Point())
	}

	return voted, nil
}

func (st *baseBallotHandler) findExpels(height base.Height, suf base.Suffrage) (
	expels []base.SuffrageExpelOperation,
	expelfacts []util.Hash,
	_ error,
) {
	ops, err := st.args.SuffrageVotingFindFunc(context.Background(), height, suf)
	if err != nil {
		return nil, nil, err
	}

	if len(ops) < 1 {
		return nil, nil, nil
	}

	expelfacts = make([]util.Hash, len(ops))

	for i := range ops {
		expelfacts[i] = ops[i].ExpelFact().Hash()
	}

	expels = ops

	return expels, expelfacts, nil
}

func (st *baseBallotHandler) localIsInConsensusNodes(height base.Height) (base.Suffrage, error) {
	l := st.Log().With().Interface("height", height).Logger()

	switch suf, found, err := st.args.NodeInConsensusNodesFunc(st.local, height); {
	case errors.Is(err, storage.ErrNotFound):
		return nil, newSyncingSwitchContext(StateConsensus, height)
	case err != nil:
		return nil, err
	case !found:
		l.Debug().Msg("local is not in consensus nodes at next block; moves to syncing state")

		return nil, newSyncingSwitchContext(StateConsensus, height)
	case suf == nil || suf.Len() < 1:
		l.Debug().Msg("empty suffrage of next block; moves to broken state")

		return nil, util.ErrNotFound.Errorf("empty suffrage")
	default:
		l.Debug().
			Bool("in_suffrage", suf.ExistsPublickey(st.local.Address(), st.local.Publickey())).
			Msg("local is in consensus nodes and is in suffrage?")

		return suf, nil
	}
}

func (st *baseBallotHandler) prepareINITBallot(
	newballotf func(context.Context) base.INITBallot,
	voteError func(error),
	initialWait time.Duration,
) error {
	started := time.Now()

	bl := newballotf(st.ctx)
	if bl == nil {
		return nil
	}

	wait := time.Nanosecond
	if d := time.Since(started); d < initialWait {
		wait = initialWait - d
	}

	go func() {
		if wait > 0 {
			<-time.After(wait)
		}

		if _, err := st.vote(bl); err != nil {
			voteError(err)
		}
	}()

	return st.bbt.INIT(bl, wait)
}

func (st *baseBallotHandler) defaultPrepareNextBlockBallot(
	avp base.ACCEPTVoteproof,
	suf base.Suffrage,
	wait time.Duration,
) error {
	point := avp.Point().Point.NextHeight()

	l := st.Log().With().Str("voteproof", avp.ID()).Object("point", point).Logger()

	if err := st.prepareINITBallot(
		func(ctx context.Context) base.INITBallot {
			switch bl, err := st.makeNextBlockBallot(ctx, avp, suf, wait); {
			case errors.Is(err, context.Canceled):
				return nil
			case err != nil:
				go st.switchState(newBrokenSwitchContext(StateConsensus, err))

				return nil
			default:
				return bl
			}
		},
		func(err error) {
			switch {
			case err == nil:
			case errors.Is(err, context.Canceled):
			case errors.Is(err, errFailedToVoteNotInConsensus):
				l.Debug().Err(err).Msg("failed to vote init ballot; moves to syncing state")

				go st.switchState(newSyncingSwitchContextWithVoteproof(StateConsensus, avp))
			default:
				l.Debug().Err(err).Msg("failed to vote init ballot; moves to broken state")

				go st.switchState(newBrokenSwitchContext(StateConsensus, err))
			}
		},
		st.args.WaitPreparingINITBallot(),
	); err != nil {
		l.Error().Err(err).Msg("failed to prepare init ballot for next block")

		return err
	}

	return nil
}

func (st *baseBallotHandler) defaultPrepareNextRoundBallot(
	vp base.Voteproof,
	previousBlock util.Hash,
	suf base.Suffrage,
	wait time.Duration,
) error {
	point := vp.Point().Point.NextRound()

	l := st.Log().With().Str("voteproof", vp.ID()).Object("point", point).Logger()

	if err := st.prepareINITBallot(
		func(ctx context.Context) base.INITBallot {
			switch bl, err := st.makeNextRoundBallot(ctx, vp, previousBlock, suf, wait); {
			case errors.Is(err, context.Canceled):
				return nil
			case err != nil:
				go st.switchState(newBrokenSwitchContext(StateConsensus, err))

				return nil
			default:
				return bl
			}
		},
		func(err error) {
			switch {
			case err == nil:
			case errors.Is(err, context.Canceled):
			case errors.Is(err, errFailedToVoteNotInConsensus):
				st.Log().Debug().Err(err).Msg("failed to vote init ballot; moves to syncing state")

				go st.switchState(newSyncingSwitchContextWithVoteproof(StateConsensus, vp))
			default:
				st.Log().Debug().Err(err).Msg("failed to vote init ballot; moves to broken state")

				go st.switchState(newBrokenSwitchContext(StateConsensus, err))
			}
		},
		st.args.WaitPreparingINITBallot(),
	); err != nil {
		l.Error().Err(err).Msg("failed to prepare init ballot for next block")

		return err
	}

	return nil
}

func (st *baseBallotHandler) requestProposal(
	ctx context.Context,
	point base.Point,
	previousBlock util.Hash,
	initialWait time.Duration,
) (base.ProposalSignFact, error) {
	l := st.Log().With().
		Object("point", point).
		Stringer("previous_block", previousBlock).
		Stringer("initial_wait", initialWait).
		Logger()

	started := time.Now()
	defer func() {
		l.Debug().Stringer("elapsed", time.Since(started)).Msg("proposal selection done")
	}()

	switch pr, err := st.args.ProposalSelectFunc(ctx, point, previousBlock, initialWait); {
	case err == nil:
		l.Debug().Interface("proposal", pr).Msg("proposal selected")

		return pr, nil
	default:
		l.Error().Err(err).Stringer("initial_wait", initialWait).Msg("failed to select proposal")

		return nil, err
	}
}

func (st *baseBallotHandler) broadcastBallot(ctx context.Context, ballot base.Ballot) error {
	go func() {
		if err := st.sendBallotToHandoverY(ctx, ballot); err != nil {
			st.Log().Error().Err(err).Msg("failed to send ballot to handover y")
		}
	}()

	return st.ballotBroadcaster.Broadcast(ballot)
}

func (st *baseBallotHandler) sendBallotToHandoverY(ctx context.Context, ballot base.Ballot) error {
	broker := st.handoverXBroker()
	if broker == nil {
		return nil
	}

	return broker.sendBallot(ctx, ballot)
}

var errFailedToVoteNotInConsensus = util.NewIDError("vote; local not in consensus nodes")

func preventVotingWithEmptySuffrage(
	local base.Node,
	voteFunc func(base.Ballot) (bool, error),
	nodeInConsensusNodes isaac.NodeInConsensusNodesFunc,
) func(base.Ballot) (bool, error) {
	return func(bl base.Ballot) (bool, error) {
		e := util.StringError("vote")

		switch suf, found, err := nodeInConsensusNodes(local, bl.Point().Height().SafePrev()); {
		case err != nil:
			if !errors.Is(err, storage.ErrNotFound) {
				return false, e.Wrap(err)
			}
		case suf == nil || len(suf.Nodes()) < 1:
			return false, e.Errorf("empty suffrage")
		case !found:
			return false, e.Wrap(errFailedToVoteNotInConsensus.Errorf("ballot=%q", bl.Point()))
		}

		return voteFunc(bl)
	}
}

func newEmptyProposalINITBallotFactFunc(args interface {
	IsEmptyProposalNoBlock() bool
	IsEmptyProposal(context.Context, base.ProposalSignFact) (bool, error)
}) func(
	_ context.Context,
	_ base.Point,
	previousBlock util.Hash,
	_ base.ProposalSignFact,
	expelfacts []util.Hash,
) (base.INITBallotFact, error) {
	return func(
		ctx context.Context,
		point base.Point,
		previousBlock util.Hash,
		proposal base.ProposalSignFact,
		expelfacts []util.Hash,
	) (base.INITBallotFact, error) {
		if len(expelfacts) > 0 || !args.IsEmptyProposalNoBlock() {
			return nil, nil
		}

		if isempty, err := args.IsEmptyProposal(ctx, proposal); err != nil || !isempty {
			return nil, err
		}

		// NOTE empty-proposal-init-ballot-fact
		return isaac.NewEmptyProposalINITBallotFact(
			point,
			previousBlock,
			proposal.Fact().Hash(),
		), nil
	}
}
