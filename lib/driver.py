"""check driver -- see /verif/DESIGN.md section 2 and /verif/CONVENTIONS.md."""
import argparse, fcntl, glob, hashlib, json, os, re, shutil, subprocess, sys, time

VERIF = os.path.dirname(os.path.dirname(os.path.abspath(__file__)))
REPO = os.environ.get("VERIF_REPO", "/repo")
COQ = os.path.join(VERIF, "coq")
WORK = os.path.join(VERIF, "work")
WORK_LOCKS = None  # private lock directory for overlay runs
GOENV = dict(GOFLAGS="-mod=mod", GOPROXY="off", GOSUMDB="off", GOTOOLCHAIN="local",
             CGO_ENABLED="0")
TAGS = "test verif"

STDLIB_AXIOMS = {
    # axioms declared by Coq's standard library (allowed by the brief when named)
    "classic", "functional_extensionality_dep", "proof_irrelevance", "JMeq_eq", "eq_rect_eq",
    "sig_forall_dec", "sig_not_dec", "constructive_indefinite_description",
    "constructive_definite_description", "propositional_extensionality", "epsilon_statement",
    "prop_extensionality", "excluded_middle_informative",
    "ClassicalDedekindReals.sig_forall_dec", "ClassicalDedekindReals.sig_not_dec",
    "FunctionalExtensionality.functional_extensionality_dep", "Classical_Prop.classic",
    "Eqdep.Eq_rect_eq.eq_rect_eq", "JMeq.JMeq_eq", "ProofIrrelevance.proof_irrelevance",
}

FORBIDDEN = [
    r"\bAdmitted\b", r"\badmit\b", r"\bAxiom\b", r"\bAxioms\b", r"\bParameter\b", r"\bParameters\b",
    r"\bConjecture\b", r"\bConjectures\b", r"Unset\s+Guard", r"bypass_check", r"Admit\s+Obligations",
    r"type-in-type", r"Unset\s+Universe\s+Checking", r"Unset\s+Positivity", r"impredicative-set",
    r"\bgive_up\b", r"Guard\s+Checking", r"Positivity\s+Checking",
]


def log(*a):
    print(*a, flush=True)


class Lock:
    def __init__(self, name):
        os.makedirs(WORK, exist_ok=True)
        d = WORK_LOCKS if (WORK_LOCKS and name in ("coq",)) else WORK
        self.path = os.path.join(d, ".lock-" + name)

    def __enter__(self):
        self.f = open(self.path, "w")
        fcntl.flock(self.f, fcntl.LOCK_EX)
        return self

    def __exit__(self, *a):
        fcntl.flock(self.f, fcntl.LOCK_UN)
        self.f.close()


def run(cmd, cwd=None, env=None, timeout=None, stdin=None):
    e = dict(os.environ)
    if env:
        e.update(env)
    try:
        p = subprocess.run(cmd, cwd=cwd, env=e, timeout=timeout, stdout=subprocess.PIPE,
                           stderr=subprocess.STDOUT, input=stdin, text=True, errors="replace")
        return p.returncode, p.stdout
    except subprocess.TimeoutExpired as ex:
        out = ex.stdout if isinstance(ex.stdout, str) else (ex.stdout or b"").decode("utf8", "replace")
        return 124, (out or "") + "\n[timeout after %ss]" % timeout


def write_if_changed(path, content):
    try:
        if open(path).read() == content:
            return False
    except OSError:
        pass
    os.makedirs(os.path.dirname(path), exist_ok=True)
    tmp = path + ".tmp%d" % os.getpid()
    with open(tmp, "w") as f:
        f.write(content)
    os.replace(tmp, path)
    return True


# ---------------------------------------------------------------- Coq side

def strip_coq_comments(s):
    out, depth, i, n = [], 0, 0, len(s)
    instr = False
    while i < n:
        c = s[i]
        if depth == 0 and c == '"':
            instr = not instr
            out.append(c); i += 1; continue
        if not instr and s.startswith("(*", i):
            depth += 1; i += 2; continue
        if not instr and depth > 0 and s.startswith("*)", i):
            depth -= 1; i += 2; continue
        if depth == 0:
            out.append(c)
        elif c == "\n":
            out.append("\n")
        i += 1
    return "".join(out)


def gate(files):
    """grep gate: no axioms / admits / switched-off checks in the development."""
    bad = []
    for f in files:
        src = strip_coq_comments(open(f).read())
        # strip string literals
        src_ns = re.sub(r'"[^"]*"', '""', src)
        for pat in FORBIDDEN:
            for m in re.finditer(pat, src_ns):
                ln = src_ns.count("\n", 0, m.start()) + 1
                bad.append("%s:%d: forbidden %s" % (f, ln, m.group(0)))
        depth = 0
        for ln, line in enumerate(src_ns.split("\n"), 1):
            if re.match(r"\s*(Section|Module\s+Type)\s+\w+", line):
                depth += 1 if line.lstrip().startswith("Section") else 0
            if re.match(r"\s*End\s+\w+\s*\.", line) and depth > 0:
                depth -= 1
            if depth == 0 and re.match(r"\s*(Variable|Variables|Hypothesis|Hypotheses|Context)\b", line):
                bad.append("%s:%d: %s outside a Section" % (f, ln, line.strip()[:40]))
    return bad


def coq_files():
    fs = sorted(glob.glob(os.path.join(COQ, "*", "*.v")))
    return [os.path.relpath(f, COQ) for f in fs]


def ensure_coq_makefile():
    content = "-Q . MV\n-arg -w -arg -notation-overridden,-deprecated-hint-without-locality,-deprecated-instance-without-locality\n" + "\n".join(coq_files()) + "\n"
    changed = write_if_changed(os.path.join(COQ, "_CoqProject"), content)
    if changed or not os.path.exists(os.path.join(COQ, "Makefile")):
        rc, out = run(["coq_makefile", "-f", "_CoqProject", "-o", "Makefile"], cwd=COQ, timeout=120)
        if rc != 0:
            raise RuntimeError("coq_makefile failed: " + out)


def coq_make(targets, timeout, jobs=8, clean_dir=None):
    with Lock("coq"):
        if clean_dir:
            # thorough tier: clean rebuild of the property's own files -- done inside the build lock, so that a
            # concurrent check that depends on them never sees them missing in the middle of its own make
            for f in glob.glob(os.path.join(COQ, clean_dir, "*.vo")) + glob.glob(os.path.join(COQ, clean_dir, "*.glob")) \
                    + glob.glob(os.path.join(COQ, clean_dir, "*.vok")) + glob.glob(os.path.join(COQ, clean_dir, "*.vos")):
                try: os.remove(f)
                except OSError: pass
        ensure_coq_makefile()
        rc, out = run(["make", "-j%d" % jobs, "--no-print-directory"] + targets, cwd=COQ, timeout=timeout)
        if rc != 0 and re.search(r"No rule to make target|No such file or directory|cannot open", out):
            # a .v file appeared/vanished between the glob and coqdep: regenerate once and retry
            try: os.remove(os.path.join(COQ, "_CoqProject"))
            except OSError: pass
            ensure_coq_makefile()
            rc, out = run(["make", "-j%d" % jobs, "--no-print-directory"] + targets, cwd=COQ, timeout=timeout)
        return rc, out


def theorems_of(props_file):
    src = strip_coq_comments(open(props_file).read())
    return re.findall(r"^\s*Theorem\s+([A-Za-z_][\w']*)", src, re.M)


def print_assumptions(pid, coqdir, thms, workdir):
    """returns {thm: [axiom names]} ; missing key = theorem not available"""
    lines = ["From MV Require Import %s.Props." % coqdir]
    for t in thms:
        lines.append('Goal True. idtac "@@THM %s". Abort.' % t)
        lines.append("Print Assumptions %s." % t)
    lines.append('Goal True. idtac "@@END". Abort.')
    f = os.path.join(workdir, "assume_%s.v" % pid)
    open(f, "w").write("\n".join(lines) + "\n")
    rc, out = run(["coqc", "-Q", COQ, "MV", f], cwd=workdir, timeout=600)
    res = {}
    if rc != 0:
        return res, out
    cur = None
    for line in out.split("\n"):
        m = re.match(r"@@THM (\S+)", line)
        if m:
            cur = m.group(1); res[cur] = []; continue
        if line.startswith("@@END"):
            cur = None; continue
        if cur is None:
            continue
        m = re.match(r"^([A-Za-z_][\w'.]*)\s*:", line)
        if m and not line.startswith("Axioms"):
            res[cur].append(m.group(1))
    return res, out


def source_hash(dirs):
    h = hashlib.sha256()
    for d in dirs:
        for f in sorted(glob.glob(os.path.join(COQ, d, "*.v"))):
            h.update(f.encode()); h.update(open(f, "rb").read())
    return h.hexdigest()[:24]


def coqchk(coqdir, deps, tree=None):
    key = source_hash(sorted(set(["Common", "Gen", coqdir] + deps)))
    cdir = os.path.join(WORK, "coqchk-cache"); os.makedirs(cdir, exist_ok=True)
    cf = os.path.join(cdir, "%s-%s.txt" % (coqdir, key))
    if os.path.exists(cf):
        return 0, open(cf).read(), True
    tree = tree or COQ
    rc, out = run(["coqchk", "-silent", "-o", "-Q", tree, "MV", "MV.%s.Props" % coqdir], cwd=tree, timeout=3000)
    if rc == 0:
        open(cf, "w").write(out)
    return rc, out, False


# ---------------------------------------------------------------- Go side

def overlay_arg(overlay):
    return ["-overlay", overlay] if overlay else []


def ensure_harness_gomod():
    """harness/go.mod is derived from /repo/go.mod (same requirements, replace => REPO)."""
    hdir = os.path.join(VERIF, "harness")
    src = open(os.path.join(REPO, "go.mod")).read()
    reqs = re.findall(r"^require \((.*?)^\)", src, re.S | re.M)
    body = "module verifharness\n\ngo 1.22\n\nrequire github.com/spikeekips/mitum v0.0.0\n\n"
    for r in reqs:
        body += "require (" + r + ")\n\n"
    for line in re.findall(r"^replace\s+[^\n(]+$", src, re.M):
        body += line.strip() + "\n"
    for blk in re.findall(r"^replace \((.*?)^\)", src, re.S | re.M):
        body += "replace (" + blk + ")\n"
    body += "replace github.com/spikeekips/mitum => %s\n" % REPO
    sums = open(os.path.join(REPO, "go.sum")).read()
    mark = hashlib.sha256((body + sums).encode()).hexdigest()
    mf = os.path.join(hdir, ".gomod.sha")
    with Lock("gomod"):
        # `go build -mod=mod` normalises go.mod (go/toolchain lines); only regenerate when /repo's changed
        try:
            if open(mf).read() == mark and os.path.exists(os.path.join(hdir, "go.mod")):
                return
        except OSError:
            pass
        write_if_changed(os.path.join(hdir, "go.mod"), body)
        write_if_changed(os.path.join(hdir, "go.sum"), sums)
        rc, out = run(["go", "mod", "edit", "-fmt"], cwd=hdir, env=GOENV, timeout=120)
        open(mf, "w").write(mark)


def trim_go_cache_if_disk_low():
    """every build of a modified tree adds to the Go build cache (it grew to 130 GB during the seeded-change
    evaluations); when the disk runs low, drop cache entries not used for 90 minutes (they are rebuilt on demand)."""
    try:
        free = shutil.disk_usage(os.path.expanduser("~")).free
    except OSError:
        return
    if free > 30 * (1 << 30):
        return
    with Lock("gocache"):
        rc, gocache = run(["go", "env", "GOCACHE"], env=GOENV, timeout=60)
        gocache = gocache.strip().split("\n")[-1] if rc == 0 else ""
        if gocache and os.path.isdir(gocache) and gocache not in ("/", os.path.expanduser("~")):
            run(["find", gocache, "-type", "f", "-mmin", "+90", "-delete"], timeout=1200)


def go_build(cmdname, out, overlay, timeout=1500):
    trim_go_cache_if_disk_low()
    ensure_harness_gomod()
    hdir = os.path.join(VERIF, "harness")
    cmd = ["go", "build", "-mod=mod", "-tags", TAGS] + overlay_arg(overlay) + ["-o", out, "./cmd/" + cmdname]
    return run(cmd, cwd=hdir, env=GOENV, timeout=timeout)


def run_translator(overlay):
    """regenerates coq/Gen/<name>.v from harness/cmd/translate/consts.d/<name>.json and the Go source (write-if-changed)."""
    tb = os.path.join(VERIF, "bin", "translate")
    with Lock("translate"):
        src = os.path.join(VERIF, "harness", "cmd", "translate", "main.go")
        if not os.path.exists(tb) or os.path.getmtime(tb) < os.path.getmtime(src):
            os.makedirs(os.path.dirname(tb), exist_ok=True)
            rc, out = run(["go", "build", "-o", tb, src], cwd=os.path.join(VERIF, "harness", "cmd", "translate"),
                          env=dict(GOENV, GOFLAGS="", GO111MODULE="off"), timeout=600)
            if rc != 0:
                raise RuntimeError("translator build failed:\n" + out)
        cmd = [tb, "-repo", REPO, "-outdir", os.path.join(COQ, "Gen")]
        if overlay:
            cmd += ["-overlay", overlay]
        rc, out = run(cmd, timeout=300)
        if rc != 0:
            raise RuntimeError("translator failed:\n" + out)
        # extra translators: harness/cmd/translate_<x>/main.go (stdlib only), same flags, each writes coq/Gen/<...>.v
        for src in sorted(glob.glob(os.path.join(VERIF, "harness", "cmd", "translate_*", "main.go"))):
            name = os.path.basename(os.path.dirname(src))
            xb = os.path.join(VERIF, "bin", name)
            srcs = glob.glob(os.path.join(os.path.dirname(src), "*.go"))
            if not os.path.exists(xb) or os.path.getmtime(xb) < max(os.path.getmtime(f) for f in srcs):
                rc, o2 = run(["go", "build", "-o", xb, "."], cwd=os.path.dirname(src),
                             env=dict(GOENV, GOFLAGS="", GO111MODULE="off"), timeout=600)
                if rc != 0:
                    raise RuntimeError("%s build failed:\n%s" % (name, o2))
            cmd = [xb, "-repo", REPO, "-outdir", os.path.join(COQ, "Gen")]
            if overlay:
                cmd += ["-overlay", overlay]
            rc, o2 = run(cmd, timeout=600)
            if rc != 0:
                raise RuntimeError("%s failed:\n%s" % (name, o2))
            out += o2
        return out


# ---------------------------------------------------------------- known findings

def load_known():
    kf = os.path.join(VERIF, "known_findings.jsonl")
    res = []
    if os.path.exists(kf):
        for line in open(kf):
            line = line.strip()
            if line and not line.startswith("#"):
                res.append(json.loads(line))
    return res


# ---------------------------------------------------------------- main

def parse_M(out):
    """coqc output of `Print M.` -> list of ints (mismatching case indices) or None if unparsable"""
    m = re.search(r"\bM\s*=\s*(\[.*?\])\s*:\s*list", out, re.S)
    if not m:
        return None
    body = m.group(1)
    return [int(x) for x in re.findall(r"\d+", body)]


def main(argv):
    ap = argparse.ArgumentParser()
    ap.add_argument("prop")
    ap.add_argument("--tier", default=os.environ.get("VERIF_TIER", "quick"), choices=["quick", "thorough"])
    ap.add_argument("--replay")
    ap.add_argument("--overlay", default=os.environ.get("VERIF_OVERLAY"))
    ap.add_argument("--keep", action="store_true")
    a = ap.parse_args(argv)
    pid = a.prop
    seed = int(os.environ.get("VERIF_SEED", "1") or "1")
    t0 = time.time()
    spec = json.load(open(os.path.join(VERIF, "checks", pid + ".json")))
    coqdir = spec.get("coq_dir", pid)
    deps = spec.get("coq_deps", [])
    workdir = os.path.join(WORK, "%s-%s-%d" % (pid, a.tier, os.getpid()))
    shutil.rmtree(workdir, ignore_errors=True)
    os.makedirs(workdir)
    os.makedirs(os.path.join(VERIF, "replays"), exist_ok=True)
    os.makedirs(os.path.join(VERIF, "evidence"), exist_ok=True)
    overlay = os.path.abspath(a.overlay) if a.overlay else None
    if overlay:
        # an overlay run must not disturb (or be disturbed by) checks of the real tree: the regenerated coq/Gen/*.v
        # differ, so it works on a private copy of the coq tree (sources + .vo), under its own locks.
        global COQ, WORK_LOCKS
        priv = os.path.join(workdir, "coq")
        with Lock("coq"):
            shutil.copytree(COQ, priv, symlinks=True)
        COQ = priv
        WORK_LOCKS = workdir

    problems = []      # (kind, text) -- broken obligations / correspondence
    notes = []
    try:
        return _main(a, pid, seed, t0, spec, coqdir, deps, workdir, overlay, problems, notes)
    finally:
        if not a.keep:
            shutil.rmtree(workdir, ignore_errors=True)


def _main(a, pid, seed, t0, spec, coqdir, deps, workdir, overlay, problems, notes):
    # 1. translator
    trans_out = run_translator(overlay)

    # 2. gate + make + Print Assumptions
    vfiles = []
    for d in sorted(set(["Common", "Gen", coqdir] + deps)):
        vfiles += sorted(glob.glob(os.path.join(COQ, d, "*.v")))
    gate_bad = gate(vfiles)
    for b in gate_bad:
        problems.append(("gate", b))
    props_file = os.path.join(COQ, coqdir, "Props.v")
    thms = theorems_of(props_file)
    rc, mk_out = coq_make(["%s/Props.vo" % coqdir, "%s/Model.vo" % coqdir], timeout=spec.get("coq_timeout", 1800))
    clean_tree = None
    if a.tier == "thorough" and rc == 0:
        # clean rebuild from sources only, in a private copy of the coq tree (the shared tree is never cleaned: other
        # checks running in parallel load its .vo files), then coqchk on that private build
        clean_tree = os.path.join(workdir, "coq-clean")
        shutil.copytree(COQ, clean_tree, ignore=shutil.ignore_patterns("*.vo", "*.vok", "*.vos", "*.glob", "*.aux", ".*.aux",
                                                                       "Makefile", "Makefile.conf", ".Makefile.d", ".lia.cache", ".nia.cache"))
        rcm, outm = run(["coq_makefile", "-f", "_CoqProject", "-o", "Makefile"], cwd=clean_tree, timeout=300)
        if rcm == 0:
            rcm, outm = run(["make", "-j8", "--no-print-directory", "%s/Props.vo" % coqdir], cwd=clean_tree,
                            timeout=spec.get("coq_timeout", 1800) * 2)
        if rcm != 0:
            rc, mk_out = rcm, "clean rebuild failed:\n" + outm
    model_ok = os.path.exists(os.path.join(COQ, coqdir, "Model.vo"))
    assumptions = {}
    if rc != 0:
        problems.append(("proof", "make %s/Props.vo failed:\n%s" % (coqdir, mk_out[-3000:])))
        # try at least the model so that the correspondence can still run
        rc2, _ = coq_make(["%s/Model.vo" % coqdir], timeout=900)
        model_ok = rc2 == 0
    else:
        assumptions, pa_out = print_assumptions(pid, coqdir, thms, workdir)
        for t in thms:
            if t not in assumptions:
                problems.append(("proof", "theorem %s not available (Print Assumptions failed): %s" % (t, pa_out[-500:])))
            else:
                for ax in assumptions[t]:
                    if ax not in STDLIB_AXIOMS and ax.split(".")[-1] not in STDLIB_AXIOMS:
                        problems.append(("gate", "theorem %s depends on non-stdlib axiom %s" % (t, ax)))
    discharged = sum(1 for t in thms if t in assumptions) if rc == 0 else 0
    chk_note = None
    if a.tier == "thorough" and rc == 0 and not os.environ.get("VERIF_SKIP_COQCHK"):
        crc, cout, cached = coqchk(coqdir, deps, clean_tree)
        chk_note = "coqchk -silent -o MV.%s.Props: rc=%d%s; %s" % (coqdir, crc, " (cached)" if cached else "", " ".join(cout.split())[-600:])
        if crc != 0:
            problems.append(("proof", "coqchk failed: " + cout[-1500:]))

    # 3. harness build (from REPO working tree)
    hbin = os.path.join(workdir, "harness")
    rc, out = go_build(spec["harness"], hbin, overlay)
    if rc != 0:
        log("ERROR: harness build failed (does %s compile?)\n%s" % (REPO, out[-4000:]))
        return 2

    # 4. run harness: implementation observables + property oracle + cases.v
    hargs = [hbin, "-seed", str(seed), "-tier", a.tier, "-out", workdir] + list(spec.get("tiers", {}).get(a.tier, []))
    if a.replay:
        hargs += ["-replay", os.path.abspath(a.replay)]
    rc, hout = run(hargs, cwd=workdir, timeout=spec.get("timeout", {}).get(a.tier, 900 if a.tier == "quick" else 7200),
                   env={"VERIF_REPO": REPO, "VERIF_DIR": VERIF})
    resf = os.path.join(workdir, "result.json")
    if rc != 0 or not os.path.exists(resf):
        # the harness itself builds and runs cleanly on the unchanged tree, so a crash / hang here comes from the
        # code under test (panic, deadlock, fatal error in a goroutine): reported as a violation whose replay names
        # the crash (no concrete property-level input isolated).
        log("harness run failed rc=%s\n%s" % (rc, hout[-3000:]))
        problems.append(("harness", "harness %s crashed or timed out (rc=%s) while driving the implementation: %s" % (
            spec["harness"], rc, hout[-2500:])))
        res = {"evaluations": 0, "distinct_nontrivial": 0, "rule": "harness crashed", "samples": [], "failures": [], "notes": []}
        for f in glob.glob(os.path.join(workdir, "cases*.v")):
            os.remove(f)
    else:
        res = json.load(open(resf))

    # 5. model vs implementation: coqc cases*.v
    mism = []
    case_files = sorted(glob.glob(os.path.join(workdir, "cases*.v")))
    ncases_model = res.get("model_cases", 0)
    if case_files and not model_ok:
        problems.append(("correspondence", "model %s/Model.v does not build; correspondence not run" % coqdir))
    elif case_files:
        import concurrent.futures as cf

        def one(f):
            return f, run(["coqc", "-Q", COQ, "MV", f], cwd=workdir, timeout=spec.get("cases_timeout", 1800))
        with cf.ThreadPoolExecutor(max_workers=min(8, len(case_files))) as ex:
            for f, (crc, cout) in ex.map(one, case_files):
                base = os.path.basename(f)
                if crc != 0:
                    problems.append(("correspondence", "%s does not evaluate: %s" % (base, cout[-1500:])))
                    continue
                idx = parse_M(cout)
                if idx is None:
                    problems.append(("correspondence", "%s: cannot parse model output: %s" % (base, cout[-800:])))
                elif idx:
                    mism.append((base, idx))
    case_desc = {}
    cj = os.path.join(workdir, "cases.jsonl")
    if os.path.exists(cj):
        for i, line in enumerate(open(cj)):
            try:
                d = json.loads(line)
            except ValueError:
                continue
            case_desc[(d.get("file", "cases.v"), d.get("idx", i))] = d
    for base, idx in mism:
        for i in idx[:20]:
            d = case_desc.get((base, i), {"file": base, "idx": i})
            problems.append(("correspondence", "model and implementation disagree on case %s" % json.dumps(d)[:1500]))

    # 6. oracle failures, known findings
    known = [k for k in load_known() if k.get("property") == pid and k.get("status", "open") == "open"]
    failures = res.get("failures", [])
    new_fail, known_hit = [], {}
    for f in failures:
        k = next((k for k in known if k.get("class") == f.get("class")), None)
        if k is not None:
            known_hit.setdefault(k["class"], []).append(f)
        else:
            new_fail.append(f)
    for k in known:
        hits = known_hit.get(k["class"], [])
        if hits:
            log("KNOWN-FINDING: property=%s %s [class=%s, %d case(s) this run, e.g. %s]" % (
                pid, k.get("what", ""), k["class"], len(hits), json.dumps(hits[0].get("replay"))[:300]))
        else:
            notes.append("known finding class %s did not reproduce in this run (stale?)" % k["class"])

    # 7. verdict
    violations = 0
    replay_path = None
    if new_fail or problems:
        violations = len(new_fail) if new_fail else 1
        replay_path = os.path.join(VERIF, "replays", "%s-%s-seed%d.json" % (pid, a.tier, seed))
        rep = {"property": pid, "tier": a.tier, "seed": seed}
        if new_fail:
            rep["failing_input"] = new_fail[0]
            rep["more_failures"] = new_fail[1:10]
        rep["broken"] = [{"kind": k, "what": t} for k, t in problems[:30]]
        if not new_fail:
            rep["note"] = "no concrete failing input of the property was found; the items under 'broken' name the theorem / correspondence case that no longer checks"
        json.dump(rep, open(replay_path, "w"), indent=1)

    # 8. evidence
    tb = list(spec.get("trusted_base", []))
    tb += ["Coq 8.16.1 kernel (coqc, full .vo build; vm_compute used; no native_compute)",
           "Print Assumptions: " + "; ".join("%s: %s" % (t, ", ".join(ax) if ax else "closed under the global context") for t, ax in assumptions.items()),
           "hand-written Gallina model coq/%s/Model.v tied to %s by differential correspondence (Go harness harness/cmd/%s renders cases.v, coqc evaluates the model by vm_compute)" % (coqdir, REPO, spec["harness"]),
           "translator harness/cmd/translate (constants in coq/Gen/*.v regenerated from the Go source each run)",
           ]
    if chk_note:
        tb.append(chk_note)
    cov = {
        "obligations": max(len(thms), 1), "discharged": discharged,
        "checker_cmd": "make -C coq %s/Props.vo && coqc assume_%s.v (Print Assumptions)%s" % (coqdir, pid, " && coqchk -silent -o MV.%s.Props" % coqdir if a.tier == "thorough" else ""),
        "trusted_base": tb,
        "theorems": thms,
        "evaluations": int(res.get("evaluations", 0)),
        "distinct_nontrivial": int(res.get("distinct_nontrivial", 0)),
        "rule": res.get("rule", ""),
        "samples": res.get("samples", [])[:8] or ["(none)"],
        "model_cases_compared": int(ncases_model),
        "model_mismatches": sum(len(i) for _, i in mism),
        "oracle_failures": len(failures), "oracle_failures_known": len(failures) - len(new_fail),
        "distribution": res.get("distribution", {}),
        "exhaustive": bool(res.get("exhaustive", False)),
        "broken": [{"kind": k, "what": t[:400]} for k, t in problems[:10]],
        "notes": notes + res.get("notes", []),
    }
    ev = {"property_id": pid, "tier": a.tier, "seed": seed, "level": "proof", "coverage": cov,
          "assumptions": spec.get("assumptions", []), "wall_s": round(time.time() - t0, 2), "violations": violations}
    # an overlay run is about a modified tree: it must not replace the evidence of the real tree
    evdir = os.path.join(VERIF, "evidence") if not overlay else os.path.join(WORK, "evidence-overlay")
    os.makedirs(evdir, exist_ok=True)
    json.dump(ev, open(os.path.join(evdir, pid + ".json"), "w"), indent=1)

    log("%s tier=%s seed=%d theorems=%d/%d evaluations=%d model_cases=%d mismatches=%d oracle_failures=%d (known %d) wall=%.1fs" % (
        pid, a.tier, seed, discharged, len(thms), cov["evaluations"], cov["model_cases_compared"], cov["model_mismatches"],
        len(failures), len(failures) - len(new_fail), time.time() - t0))
    if violations:
        for k, t in problems[:5]:
            log("BROKEN[%s]: %s" % (k, t[:600]))
        for f in new_fail[:3]:
            log("FAILING-INPUT: %s" % json.dumps(f)[:800])
        tail = "" if new_fail else " no-failing-input-found"
        log("VIOLATION property=%s replay=%s%s" % (pid, replay_path, tail))
        return 1
    return 0
