#!/bin/bash
# Offline setup: builds everything the checks need from files on disk (Coq .vo, translator, Go build cache).
set -u
cd "$(dirname "$0")"
export GOFLAGS=-mod=mod GOPROXY=off GOSUMDB=off GOTOOLCHAIN=local CGO_ENABLED=0
mkdir -p work bin evidence replays
python3 - <<'PY'
import sys, os, glob, json
sys.path.insert(0, "lib")
import driver
print(driver.run_translator(None))
with driver.Lock("coq"):
    driver.ensure_coq_makefile()
# build every property's chain separately so that one broken file does not hide the others
targets = [os.path.relpath(f, driver.COQ)[:-2] + ".vo" for f in sorted(glob.glob(os.path.join(driver.COQ, "*", "*.v")))]
rc, out = driver.run(["make", "-k", "-j16", "--no-print-directory"] + targets, cwd=driver.COQ, timeout=7200)
print(out[-3000:])
print("coq make rc", rc)
driver.ensure_harness_gomod()
PY
# warm the Go build cache for every harness (each check relinks its own binary)
( cd harness && go build -mod=mod -tags "test verif" -o /dev/null ./cmd/... 2>&1 | tail -20 ; for d in cmd/c*/; do go build -mod=mod -tags "test verif" -o /dev/null ./$d 2>&1 | tail -3; done )
echo setup done
