#!/bin/bash
# recheck_seeded.sh <seeded-name> [check]  : re-run the quick check against seeded/<name>/patch.diff (overlay) and update meta.json
cd /verif; n=$1; c=${2:-${n%%-*}}; d=seeded/$n
python3 tools/patch2overlay.py $d/patch.diff work/ovr-$n >/dev/null || exit 1
out=$(./check $c --tier quick --overlay work/ovr-$n/overlay.json 2>&1 | tail -4)
if echo "$out" | grep -q "^VIOLATION"; then R="VIOLATION: $(echo "$out" | grep -E '^FAILING-INPUT|^BROKEN' | head -1 | cut -c1-300)"; cp replays/$c-quick-seed1.json $d/replay-$c.json 2>/dev/null; else R="not caught: $(echo "$out" | tail -1 | cut -c1-200)"; fi
echo "== $n check $c: $R" | cut -c1-300
R_C="$R" python3 - "$d" "$c" <<'PY'
import json, os, sys
d, c = sys.argv[1], sys.argv[2]
m = json.load(open(d + "/meta.json"))
cr = m.setdefault("checks_run", {"results": {}})
old = cr["results"].get(c)
if old and old != os.environ["R_C"] and old.startswith("not caught"):
    cr.setdefault("history", []).append({"check": c, "before_strengthening": old})
cr["results"][c] = os.environ["R_C"]
json.dump(m, open(d + "/meta.json", "w"), indent=1)
PY
rm -rf work/ovr-$n
