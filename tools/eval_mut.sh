#!/bin/bash
# eval_mut.sh Cxx [checks...] : take /tmp/mut-Cxx/out/{A,B}, store under seeded/, confirm in a scratch worktree,
# run the given checks (default: Cxx) against each through an overlay, record results in meta.json.
p=$1; shift; checks=${@:-$p}
cd /verif
RND=${ROUND:-}
for x in A B; do
  src=/tmp/mut$RND-$p/out/$x; [ -f $src/patch.diff ] || continue
  y=$x; if [ "$RND" = 2 ]; then if [ $x = A ]; then y=C; else y=D; fi; fi; if [ "$RND" = 3 ]; then if [ $x = A ]; then y=E; else y=F; fi; fi
  d=seeded/$p-$y; if [ -n "${SKIPDONE:-}" ] && grep -q checks_run $d/meta.json 2>/dev/null; then continue; fi; mkdir -p $d; cp $src/* $d/ 2>/dev/null
  conf=$(tools/confirm_seeded.sh $d 2>&1 | tail -12)
  python3 tools/patch2overlay.py $d/patch.diff work/ov-$p-$y >/dev/null || { echo "$p-$x overlay failed"; continue; }
  declare -A R=()
  for c in $checks; do
    out=$(./check $c --tier quick --overlay work/ov-$p-$y/overlay.json 2>&1 | tail -4)
    if echo "$out" | grep -q "^VIOLATION"; then R[$c]="VIOLATION: $(echo "$out" | grep -E '^FAILING-INPUT|^BROKEN' | head -1 | cut -c1-300)"; else R[$c]="not caught: $(echo "$out" | tail -1 | cut -c1-200)"; fi
    cp replays/$c-quick-seed1.json $d/replay-$c.json 2>/dev/null
    echo "== $p-$y check $c: ${R[$c]}" | cut -c1-400
  done
  CONF="$conf" python3 - "$d" "$p" <<'PY'
import json, os, sys
d, p = sys.argv[1], sys.argv[2]
m = json.load(open(d + "/meta.json"))
m["breaks_property"] = p
conf = os.environ["CONF"]
m["confirmed_by_coordinator"] = {"cmd": "tools/confirm_seeded.sh " + d, "output_tail": conf.split("\n")[-6:]}
m["checks_run"] = m.get("checks_run") or ({"how": "tools/patch2overlay.py patch.diff -> ./check Cxx --tier quick --overlay overlay.json (equivalent to git -C /repo apply; used because other builds run from /repo concurrently)", "results": {}})
json.dump(m, open(d + "/meta.json", "w"), indent=1)
PY
  for c in $checks; do R_C="${R[$c]}" python3 - "$d" "$c" <<'PY'
import json, os, sys
d, c = sys.argv[1], sys.argv[2]
m = json.load(open(d + "/meta.json")); m["checks_run"]["results"][c] = os.environ["R_C"]; json.dump(m, open(d + "/meta.json", "w"), indent=1)
PY
  done
  echo "$conf" | grep RESULT
  rm -rf work/ov-$p-$y
done
git -C /repo worktree remove --force /tmp/mut$RND-$p/wt 2>/dev/null; rm -rf /tmp/mut$RND-$p
