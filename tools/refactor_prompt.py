#!/usr/bin/env python3
"""prompt for an independent 'harmless refactoring' agent for a group of properties (nothing from /verif is shown to it)."""
import json, sys
grp = sys.argv[1]; pids = sys.argv[2:]
props = {json.loads(l)['id']: json.loads(l) for l in open('/verif/properties.jsonl')}
txt = []
for pid in pids:
    p = props[pid]
    txt.append(f"  [{pid}] {p['title']}\n      Statement: {p['statement']}\n      Anchored in: {', '.join(p['anchors']['files'])}")
print(f"""You are testing whether a Go codebase's verification tooling raises FALSE alarms on harmless code changes. You work ONLY inside the scratch git worktree /tmp/ref-{grp}/wt (a checkout of the repository spikeekips/mitum, a Go blockchain node framework) and write results to /tmp/ref-{grp}/out/. Do not read or write anything under /verif or /repo (other than through your worktree).

For EACH of the following semantic properties, write ONE behaviour-preserving refactoring of the code the property is anchored in — a change a maintainer could make in a clean-up PR — under which the property (and all observable behaviour) still holds exactly:

{chr(10).join(txt)}

What a good refactoring here looks like: it is non-trivial (touch the functions that implement the property, 10-60 changed lines), e.g. rename local variables / unexported helpers / receiver names, extract or inline an unexported helper function, turn a switch into if/else chains or vice versa, reorder independent statements or independent struct fields, replace index loops by range loops, change the wording of error and log messages, add or remove comments and blank lines, introduce named constants for literals (same values), replace a hand-written loop by an equivalent standard-library call, change an internal (unexported, unobservable) representation. It must NOT change: any exported API, any value written to storage / the wire / hashes / signatures, the order or content of externally visible results, locking discipline, or error *kinds* (wrapped sentinel errors must stay the same).

Requirements per property Cxx: (1) `go build ./...` and `go build -tags test ./...` succeed; (2) the repository's tagged tests of the touched package(s) pass exactly as without your change (`go test -vet=off -tags test -count=1 ./<pkg>/`, use -run selections for big packages; pre-existing failures: goleak-only suite failures in isaac/block and isaac/states TestLastConsensusNodesWatcher/TestSyncer, 5 always-failing tests in package util: TestJobWorker, TestBatchWork, TestErrCallbackJobWorker, TestContextDaemon, TestRetry; util.TestSimpleTimers is flaky under load); for util/ also run `go test -vet=off -count=1 ./util/...` without tags; (3) write /tmp/ref-{grp}/out/Cxx/patch.diff (`git diff`, applies with `git apply` at the worktree HEAD, no go.mod noise) and /tmp/ref-{grp}/out/Cxx/meta.json: {{"property": "Cxx", "summary": "what was refactored", "why_harmless": "...", "files_changed": [...], "ran": ["commands and outcomes"]}}. Reset the worktree between properties (`git checkout -- . && git clean -fdq`) and leave it clean at the end.

Practicalities: per shell call `export GOFLAGS=-mod=mod GOPROXY=off GOSUMDB=off GOTOOLCHAIN=local` (no network); go commands may rewrite go.mod/go.sum: `git checkout -- go.mod go.sum` before diffing. Keep it efficient: about 15 minutes per property. Final message: one short paragraph per property.""")
