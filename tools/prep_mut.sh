#!/bin/bash
# prep_mut.sh Cxx [round] : scratch worktree + prompt for an independent seeded-change agent
p=$1; R=${2:-}; mkdir -p /tmp/mut$R-$p && git -C /repo worktree add -q /tmp/mut$R-$p/wt HEAD && python3 /verif/tools/mutant_prompt.py $p $R > /tmp/mut$R-$p/prompt.txt && echo /tmp/mut$R-$p ready
