#!/bin/bash
# prep_mut.sh Cxx : scratch worktree + prompt for an independent seeded-change agent
p=$1; mkdir -p /tmp/mut-$p && git -C /repo worktree add -q /tmp/mut-$p/wt HEAD && python3 /verif/tools/mutant_prompt.py $p > /tmp/mut-$p/prompt.txt && echo /tmp/mut-$p ready
