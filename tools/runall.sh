#!/bin/bash
# runs every claimed check (tier $1, default quick) in parallel ($2 jobs, default 6) and prints a summary
cd "$(dirname "$0")/.."
tier=${1:-quick}; jobs=${2:-6}
mkdir -p work/runall
ls checks/C*.json | sed 's#checks/##; s#.json##' | xargs -P "$jobs" -I{} sh -c "./check {} --tier $tier > work/runall/{}.log 2>&1; echo {} rc=\$? \$(tail -1 work/runall/{}.log | cut -c1-200)"
