#!/bin/bash
# confirm_seeded.sh DIR  -- DIR holds patch.diff, meta.json (demo.file/place_at/run) and the demo file.
# In a scratch worktree of /repo HEAD: demo passes without the patch; with the patch: builds (plain + tag test),
# untagged util baseline unchanged (only the 5 sandbox failures + known flaky allowed), demo FAILS.
set -u
D=$(cd "$1" && pwd); name=$(basename "$D")
WT=/tmp/confirm-$name-$$
export GOFLAGS=-mod=mod GOPROXY=off GOSUMDB=off GOTOOLCHAIN=local
git -C /repo worktree add -q "$WT" HEAD || exit 2
trap 'git -C /repo worktree remove --force "$WT" >/dev/null 2>&1; rm -rf "$WT"' EXIT
demo=$(python3 -c "import json;m=json.load(open('$D/meta.json'));print(m['demo']['file'])")
place=$(python3 -c "import json;m=json.load(open('$D/meta.json'));print(m['demo']['place_at'])")
runc=$(python3 -c "import json;m=json.load(open('$D/meta.json'));print(m['demo']['run'])")
cd "$WT"
mkdir -p "$(dirname "$place")"; cp "$D/$demo" "$place"
echo "[1] demo without patch: $runc"
if timeout 1500 bash -c "$runc" > "$WT/.demo0.log" 2>&1; then echo "    PASS (expected)"; r0=ok; else echo "    FAIL (unexpected)"; tail -5 "$WT/.demo0.log"; r0=bad; fi
git apply "$D/patch.diff" || { echo "patch does not apply"; exit 1; }
echo "[2] build with patch"
if go build ./... > "$WT/.b.log" 2>&1 && go build -tags test ./... >> "$WT/.b.log" 2>&1; then echo "    builds"; rb=ok; else echo "    BUILD FAILS"; tail -5 "$WT/.b.log"; rb=bad; fi
echo "[3] untagged baseline (util) with patch"
go test -vet=off -count=1 -timeout 20m ./util/... 2>&1 | grep -E "^--- FAIL|^FAIL|^ok" > "$WT/.u.log"
fails=$(grep -E "^--- FAIL" "$WT/.u.log" | awk '{print $3}' | sort -u | tr '\n' ' ')
echo "    failing tests: $fails"
ru=ok; for t in $fails; do case $t in TestJobWorker|TestBatchWork|TestErrCallbackJobWorker|TestContextDaemon|TestRetry|TestSimpleTimers) ;; *) ru=bad;; esac; done
echo "[4] demo with patch"
if timeout 1500 bash -c "$runc" > "$WT/.demo1.log" 2>&1; then echo "    PASS (unexpected: change not demonstrated)"; r1=bad; else echo "    FAIL (expected)"; grep -E "^\s+.*(Error|expected|want|got|mismatch)" "$WT/.demo1.log" | head -3; r1=ok; fi
echo "RESULT $name demo_without=$r0 build=$rb baseline=$ru demo_with=$r1"
[ "$r0$rb$ru$r1" = okokokok ]
