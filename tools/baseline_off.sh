#!/bin/bash
# Repository's stable baseline with the verif guard OFF (no build tags at all), as in /root/.vp/BASELINE.json.
cd /repo || exit 2
export GOFLAGS=-mod=mod GOPROXY=off GOSUMDB=off GOTOOLCHAIN=local
go test -mod=mod -json -vet=off -count=1 -timeout 25m ./...
rc=$?
git -C /repo checkout -- go.mod go.sum 2>/dev/null
exit $rc
