#!/usr/bin/env python3
"""Rebuilds DESIGN.md section 10 from notes/Cxx.md (one subsection per property) + notes/_coordinator.md."""
import glob, os, re
V = os.path.dirname(os.path.dirname(os.path.abspath(__file__)))
d = open(os.path.join(V, "DESIGN.md")).read()
i = d.index("## 10. Decisions log")
head = d[:i]
out = ["## 10. Decisions log (built from notes/*.md by tools/merge_notes.py)\n"]
co = os.path.join(V, "notes", "_coordinator.md")
if os.path.exists(co):
    out.append(open(co).read().rstrip() + "\n")
for f in sorted(glob.glob(os.path.join(V, "notes", "C*.md"))):
    pid = os.path.basename(f)[:-3]
    body = open(f).read().rstrip()
    # demote headings so that each note nests under its own ### heading
    body = re.sub(r"^(#+) ", lambda m: "#" * min(6, len(m.group(1)) + 3) + " ", body, flags=re.M)
    out.append("### 10.%s — notes/%s.md\n\n%s\n" % (pid, pid, body))
open(os.path.join(V, "DESIGN.md"), "w").write(head + "\n".join(out))
print("merged", len(out) - 1, "notes")
