#!/usr/bin/env python3
"""Rebuilds DESIGN.md section 10 from notes/Cxx.md (one subsection per property) + notes/_coordinator.md."""
import glob, os, re
V = os.path.dirname(os.path.dirname(os.path.abspath(__file__)))
d = open(os.path.join(V, "DESIGN.md")).read()
i = d.index("## 10. Decisions log")
head = d[:i]
out = ["## 10. Decisions log (built from notes/*.md by tools/merge_notes.py)\n"]
co = os.path.join(V, "notes", "_coordinator.md")
if os.path.exists(co):
    out.append(open(co).read().rstrip() + "\n")
for f in sorted(glob.glob(os.path.join(V, "notes", "C*.md"))):
    pid = os.path.basename(f)[:-3]
    body = open(f).read().rstrip()
    # demote headings so that each note nests under its own ### heading
    body = re.sub(r"^(#+) ", lambda m: "#" * min(6, len(m.group(1)) + 3) + " ", body, flags=re.M)
    out.append("### 10.%s — notes/%s.md\n\n%s\n" % (pid, pid, body))
# section 11: known findings as recorded, and the seeded-change table
import json
kf = []
for line in open(os.path.join(V, "known_findings.jsonl")):
    line = line.strip()
    if line and not line.startswith("#"):
        kf.append(json.loads(line))
out.append("## 11. Outcome: defects of spikeekips/mitum found by the build (from known_findings.jsonl)\n")
out.append("Every entry was reproduced on the real code with the input named in it before being fixed or recorded. `fixed` = repaired by a")
out.append("`fix:` commit in /repo (suppresses nothing; the check reports the violation again if it returns). `open` = recorded, not repaired")
out.append("(not a small safe patch: protocol or design decision needed); the check prints `KNOWN-FINDING:` for it and still exits 1 for any violation outside the class.\n")
out.append("| property | status | commit / class | what |")
out.append("|---|---|---|---|")
for k in sorted(kf, key=lambda k: (k["property"], k.get("status", ""))):
    what = k.get("what", "").replace("|", "/").replace("\n", " ")
    out.append("| %s | %s | %s | %s |" % (k["property"], k.get("status", "open"), k.get("commit") or k.get("class", ""), what[:600]))
out.append("")
rs = os.path.join(V, "seeded", "RESULTS.md")
if os.path.exists(rs):
    body = open(rs).read()
    body = body.replace("# Seeded breaking changes and which checks catch them", "## 12. Seeded breaking changes and which checks catch them (seeded/RESULTS.md)")
    out.append(body)
open(os.path.join(V, "DESIGN.md"), "w").write(head + "\n".join(out))
print("merged", len(out) - 1, "notes")
