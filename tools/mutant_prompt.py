#!/usr/bin/env python3
"""prints the prompt for an independent 'seeded change' agent for property Cxx (nothing from /verif is shown to it)."""
import json, sys
pid = sys.argv[1]
ROUND = sys.argv[2] if len(sys.argv) > 2 else ''
import glob, os
avoid = ''
if ROUND:
    items = []
    for f in sorted(glob.glob('/verif/seeded/%s-*/meta.json' % pid)):
        try: items.append('   - ' + (json.load(open(f)).get('summary') or '')[:300].replace('\n', ' '))
        except Exception: pass
    if items:
        avoid = '\nEarlier changes for this property already exist; yours must use DIFFERENT code sites or mechanisms than these:\n' + '\n'.join(items) + '\n'
p = next(json.loads(l) for l in open('/verif/properties.jsonl') if json.loads(l)['id'] == pid)
print(f"""You are testing how well a Go codebase's safety net catches subtle regressions. You work ONLY inside the scratch git worktree /tmp/mut{ROUND}-{pid}/wt (a checkout of the repository spikeekips/mitum, a Go blockchain node framework implementing the ISAAC consensus) and write your results to /tmp/mut{ROUND}-{pid}/out/. Do not read or write anything under /verif or /repo (other than through your worktree).

The following semantic property of the codebase is supposed to hold:

  Title: {p['title']}
  Statement: {p['statement']}
  It is meant to hold over: {p['quantifier']['text']}
  Anchored in: {', '.join(p['anchors']['files'])}

{avoid}
Your task: produce TWO independent, realistic changes to the repository's non-test Go source (call them A and B, using different mechanisms / code sites where possible) such that EACH change, applied alone:
  1. still compiles: `go build ./...` and `go build -tags test ./...` both succeed;
  2. still passes the existing tests: the pinned baseline is `go test -vet=off -count=1 ./util/...` WITHOUT build tags (in package util the 5 tests TestJobWorker, TestBatchWork, TestErrCallbackJobWorker, TestContextDaemon, TestRetry fail in this sandbox even without any change: ignore those); in addition the repository's own tagged tests of the package(s) you touch (`go test -vet=off -tags test -count=1 ./<pkg>/`; may take minutes; for big packages run the tests related to the code you touched with -run) must pass exactly as they do without your change (record what you ran and the outcome);
  3. BREAKS the property above — and needs something specific to manifest: a particular interleaving, a crash or fault at a particular point, a multi-step sequence of operations, an unusual or boundary input, or two cooperating sites that each look fine alone. NOT a change that ordinary use or the existing tests would expose at once. It should look like something a maintainer could plausibly write in a refactoring or "optimisation" (off-by-one at a boundary, a dropped or weakened check, a stale cache, a swapped order, a missing lock, a wrong key, integer/float rounding, an early return).
  4. comes with a demonstration: a small Go test (or program) that FAILS with the change and PASSES without it, showing the property being violated on the real code.

Practicalities:
  - Per shell call: `export GOFLAGS=-mod=mod GOPROXY=off GOSUMDB=off GOTOOLCHAIN=local` (no network; everything needed is in the module cache). Go commands may rewrite go.mod/go.sum in the worktree: run `git checkout -- go.mod go.sum` before producing diffs.
  - The repository's test fixtures live in non-_test files guarded by `//go:build test`; demonstrations that need them must carry `//go:build test` and be run with `-tags test`. Put the demonstration in the package it tests (e.g. base/zz_demo_test.go).
  - For each change X in {{A, B}} write into /tmp/mut{ROUND}-{pid}/out/X/ :
      patch.diff   — `git diff` of the source change only (no demo, no go.mod noise), applies with `git apply` at the worktree's HEAD;
      the demonstration file(s), plus in meta.json the path where each must be placed;
      meta.json    — {{"property": "{pid}", "summary": "...", "needs_to_manifest": "...", "files_changed": [...], "demo": {{"file": "<name>", "place_at": "<path in repo>", "run": "<exact go test command>"}}, "ran": ["<commands you ran and their outcome>"]}}
  - Verify yourself, in the worktree: with the patch → build ok, existing tests as before, demo FAILS; without the patch (git stash / checkout) → demo PASSES. Between A and B reset the worktree (`git checkout -- . && git clean -fdq`).
  - Never use `git stash` (the stash is shared by every worktree of the repository, other agents work in sibling worktrees): use `git diff > file`, `git apply -R` and `git checkout -- .` instead. Leave the worktree clean (no patch applied) at the end. Keep everything small. Finish within about 45 minutes.

Your final message: for A and B one paragraph each: what was changed, why it breaks the property, what it needs to manifest, and the verification you performed (commands + outcomes).""")
