#!/usr/bin/env python3
"""Builds /verif/MANIFEST.json from checks/*.json (one spec per claimed property) and tools/manifest_base.json."""
import glob, json, os, subprocess
V = os.path.dirname(os.path.dirname(os.path.abspath(__file__)))
base = json.load(open(os.path.join(V, "tools", "manifest_base.json")))
props = [json.loads(l)["id"] for l in open(os.path.join(V, "properties.jsonl"))]
checks = []
claimed = set()
for f in sorted(glob.glob(os.path.join(V, "checks", "C*.json"))):
    s = json.load(open(f))
    pid = s["id"]
    claimed.add(pid)
    checks.append({
        "property_id": pid,
        "quick_cmd": "./check %s --tier quick" % pid,
        "thorough_cmd": "./check %s --tier thorough" % pid,
        "evidence_file": "/verif/evidence/%s.json" % pid,
        "replay_cmd_template": "./check %s --replay {path}" % pid,
        "engine": "coq-proof+correspondence",
        "level_claimed": {"category": "proof", "text": s["level_text"], "design_ref": s.get("design_ref", "DESIGN.md section 6 " + pid)},
        "level_note": s["level_note"],
        "technique": s["technique"],
    })
na = [x for x in base.get("not_applicable", []) if x["property_id"] not in claimed]
listed = {x["property_id"] for x in na}
for p in props:
    if p not in claimed and p not in listed:
        na.append({"property_id": p, "reason": "not yet claimed: the Coq model, theorems and correspondence harness for this property are not built yet (see DESIGN.md section 6 for the plan)"})
try:
    commits = subprocess.run(["git", "-C", "/repo", "log", "--format=%h %s", "0420578..HEAD"], capture_output=True, text=True).stdout.strip().split("\n")
    hook_commits = [c.split()[0] for c in commits if c and c.split(" ", 1)[1].startswith("verif:")]
except Exception:
    hook_commits = []
m = {
    "version": 1,
    "setup_cmd": base["setup_cmd"],
    "hooks": dict(base["hooks"], source_commits=hook_commits),
    "engines": [{"name": "coq-proof+correspondence", "path": "/verif/check",
                 "serves_properties": sorted(claimed),
                 "kind_free_text": "Coq 8.16.1 theorems over hand-written executable Gallina models (coq/Cxx/{Model,Proofs,Props}.v), constants regenerated from Go source by a translator (coq/Gen), model tied to /repo by a differential correspondence check (Go harness -> cases_NNN.v evaluated by vm_compute) and a property oracle on the implementation that searches for the failing input"}],
    "checks": checks,
    "notes": base.get("notes", ""),
    "not_applicable": sorted(na, key=lambda x: x["property_id"]),
}
json.dump(m, open(os.path.join(V, "MANIFEST.json"), "w"), indent=1)
print("MANIFEST.json: %d checks, %d not_applicable" % (len(checks), len(na)))
