#!/bin/bash
# recheck_ref.sh Cxx : re-run the quick check of Cxx against harmless/Cxx-R/patch.diff and update its meta.json
cd /verif; p=$1; t=harmless/$p-R
python3 tools/patch2overlay.py $t/patch.diff work/ovh-$p >/dev/null || exit 1
out=$(./check $p --tier quick --overlay work/ovh-$p/overlay.json 2>&1 | tail -6)
if echo "$out" | grep -q "^VIOLATION"; then R="FALSE ALARM: $(echo "$out" | grep -E '^FAILING-INPUT|^BROKEN' | head -2 | cut -c1-400 | tr '\n' ' ')"; cp replays/$p-quick-seed1.json $t/replay.json 2>/dev/null;
elif echo "$out" | grep -q "^ERROR"; then R="ERROR: $(echo "$out" | tail -3 | cut -c1-300 | tr '\n' ' ')";
else R="green: $(echo "$out" | tail -1 | cut -c1-160)"; rm -f $t/replay.json; fi
echo "== $p-R: $R" | cut -c1-400
R_C="$R" python3 - "$t" <<'PY'
import json, os, sys
t = sys.argv[1]; m = json.load(open(t + "/meta.json"))
old = m.get("check_result")
if old and old.startswith("FALSE ALARM") and not os.environ["R_C"].startswith("FALSE ALARM"):
    m.setdefault("history", []).append({"before_repair": old[:300]})
m["check_result"] = os.environ["R_C"]
json.dump(m, open(t + "/meta.json", "w"), indent=1)
PY
rm -rf work/ovh-$p
