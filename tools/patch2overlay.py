#!/usr/bin/env python3
"""patch2overlay.py PATCH OUTDIR [REPO] -> writes OUTDIR/overlay.json mapping each file touched by PATCH
(a `git diff` against REPO's HEAD working tree) to a patched copy under OUTDIR/files/.
Lets a change be tried with `./check Cxx --overlay OUTDIR/overlay.json` without touching REPO."""
import json, os, re, shutil, subprocess, sys
patch, out = os.path.abspath(sys.argv[1]), os.path.abspath(sys.argv[2])
repo = sys.argv[3] if len(sys.argv) > 3 else "/repo"
files = []
for line in open(patch, errors="replace"):
    m = re.match(r"^\+\+\+ b/(.+)$", line.rstrip("\n"))
    if m:
        files.append(m.group(1))
    m = re.match(r"^--- a/(.+)$", line.rstrip("\n"))
    if m and m.group(1) not in files:
        files.append(m.group(1))
root = os.path.join(out, "files")
shutil.rmtree(root, ignore_errors=True)
for f in files:
    src = os.path.join(repo, f)
    dst = os.path.join(root, f)
    os.makedirs(os.path.dirname(dst), exist_ok=True)
    if os.path.exists(src):
        shutil.copy(src, dst)
r = subprocess.run(["patch", "-p1", "-s", "-d", root, "-i", patch], capture_output=True, text=True)
if r.returncode != 0:
    print("patch failed:", r.stdout, r.stderr); sys.exit(1)
ov = {"Replace": {}}
for f in files:
    dst = os.path.join(root, f)
    ov["Replace"][os.path.join(repo, f)] = dst if os.path.exists(dst) else ""
json.dump(ov, open(os.path.join(out, "overlay.json"), "w"), indent=1)
print(os.path.join(out, "overlay.json"))
