#!/bin/bash
# eval_ref.sh gN : take /tmp/ref-gN/out/Cxx/{patch.diff,meta.json} (independent behaviour-preserving refactorings),
# store under harmless/Cxx-R/, run the quick check of Cxx through an overlay; a VIOLATION here is a false alarm to repair.
g=$1; cd /verif
for d in /tmp/ref-$g/out/C*/; do
  p=$(basename $d); [ -f $d/patch.diff ] || continue
  t=harmless/$p-R; mkdir -p $t; cp $d/patch.diff $d/meta.json $t/ 2>/dev/null
  python3 tools/patch2overlay.py $t/patch.diff work/ovh-$p >/dev/null || { echo "$p overlay failed"; continue; }
  out=$(./check $p --tier quick --overlay work/ovh-$p/overlay.json 2>&1 | tail -6)
  if echo "$out" | grep -q "^VIOLATION"; then R="FALSE ALARM: $(echo "$out" | grep -E '^FAILING-INPUT|^BROKEN' | head -2 | cut -c1-400 | tr '\n' ' ')"; cp replays/$p-quick-seed1.json $t/replay.json 2>/dev/null;
  elif echo "$out" | grep -q "^ERROR"; then R="ERROR: $(echo "$out" | tail -3 | cut -c1-300 | tr '\n' ' ')";
  else R="green: $(echo "$out" | tail -1 | cut -c1-160)"; fi
  echo "== $p-R: $R" | cut -c1-500
  R_C="$R" python3 - "$t" <<'PY'
import json, os, sys
t = sys.argv[1]
try: m = json.load(open(t + "/meta.json"))
except Exception: m = {}
m["check_result"] = os.environ["R_C"]
m["how"] = "tools/patch2overlay.py patch.diff -> ./check Cxx --tier quick --overlay overlay.json"
json.dump(m, open(t + "/meta.json", "w"), indent=1)
PY
  rm -rf work/ovh-$p
done
git -C /repo worktree remove --force /tmp/ref-$g/wt 2>/dev/null; rm -rf /tmp/ref-$g
