#!/usr/bin/env python3
"""seeded/RESULTS.md: which check catches which independently written breaking change (from seeded/*/meta.json)."""
import glob, json, os
V = os.path.dirname(os.path.dirname(os.path.abspath(__file__)))
rows = []
for f in sorted(glob.glob(os.path.join(V, "seeded", "*", "meta.json"))):
    m = json.load(open(f)); name = os.path.basename(os.path.dirname(f))
    res = (m.get("checks_run") or {}).get("results", {})
    conf = " ".join((m.get("confirmed_by_coordinator") or {}).get("output_tail", [])[-1:]) or (m.get("confirmed_by_coordinator") or {}).get("result", "")
    summ = (m.get("summary") or "").replace("\n", " ").replace("|", "/")[:160]
    needs = (m.get("needs_to_manifest") or "").replace("\n", " ").replace("|", "/")[:160]
    for c, r in sorted(res.items()):
        verdict = "caught" if r.startswith("VIOLATION") else "NOT caught" if r.startswith("not caught") else r[:40]
        how = ""
        if r.startswith("VIOLATION"):
            how = "oracle failing input" if "FAILING-INPUT" in r else "model/implementation correspondence" if "correspondence" in r else "proof obligation" if "proof" in r else "other"
        rows.append((name, m.get("breaks_property", m.get("property", "")), c, verdict, how, summ, needs, "confirmed" if "demo_with=ok" in conf or "demo fails" in conf else conf[:60]))
out = ["# Seeded breaking changes and which checks catch them\n",
       "Each change was written by an independent sub-agent that saw only the property text and a scratch worktree;",
       "confirmed by `tools/confirm_seeded.sh` (builds with and without `-tags test`, untagged util baseline unchanged,",
       "demonstration passes without / fails with the change), then run through the quick check via `tools/eval_mut.sh`.\n",
       "| change | property | check | verdict | detected by | what it changes | needs to manifest | confirmation |", "|---|---|---|---|---|---|---|---|"]
for r in rows:
    out.append("| " + " | ".join(r) + " |")
# harmless refactorings
hrows = []
for f in sorted(glob.glob(os.path.join(V, "harmless", "*", "meta.json"))):
    m = json.load(open(f)); name = os.path.basename(os.path.dirname(f))
    r = m.get("check_result", "")
    verdict = "green (no alarm)" if r.startswith("green") else "FALSE ALARM" if r.startswith("FALSE ALARM") else r[:30]
    hist = "; ".join("before repair of the check: " + h.get("before_repair", "")[:160].replace("|", "/") for h in m.get("history", []))
    hrows.append((name, m.get("property", name[:3]), verdict, (m.get("summary") or "").replace("\n", " ").replace("|", "/")[:200], hist))
out += ["", "## Behaviour-preserving refactorings (harmless/): the checks must stay green\n",
        "Written by independent sub-agents from the property text only (tools/refactor_prompt.py), each builds and passes the",
        "touched packages' tests; run through the quick check with tools/eval_ref.sh. A false alarm found here was repaired in the",
        "check (never by loosening a right check): all were positional translator ties (`funcints`/`funcstrings` of a whole",
        "function), repaired with the translator filters `match` / `cmp` / `within` / `follow` / `uniq`.\n",
        "| refactoring | property | verdict | what it changes | history |", "|---|---|---|---|---|"]
for r in hrows:
    out.append("| " + " | ".join(r) + " |")
open(os.path.join(V, "seeded", "RESULTS.md"), "w").write("\n".join(out) + "\n")
print(len(rows), "rows")
