#!/usr/bin/env python3
"""seeded/RESULTS.md: which check catches which independently written breaking change (from seeded/*/meta.json)."""
import glob, json, os
V = os.path.dirname(os.path.dirname(os.path.abspath(__file__)))
rows = []
for f in sorted(glob.glob(os.path.join(V, "seeded", "*", "meta.json"))):
    m = json.load(open(f)); name = os.path.basename(os.path.dirname(f))
    res = (m.get("checks_run") or {}).get("results", {})
    conf = " ".join((m.get("confirmed_by_coordinator") or {}).get("output_tail", [])[-1:]) or (m.get("confirmed_by_coordinator") or {}).get("result", "")
    summ = (m.get("summary") or "").replace("\n", " ").replace("|", "/")[:160]
    needs = (m.get("needs_to_manifest") or "").replace("\n", " ").replace("|", "/")[:160]
    for c, r in sorted(res.items()):
        verdict = "caught" if r.startswith("VIOLATION") else "NOT caught" if r.startswith("not caught") else r[:40]
        how = ""
        if r.startswith("VIOLATION"):
            how = "oracle failing input" if "FAILING-INPUT" in r else "model/implementation correspondence" if "correspondence" in r else "proof obligation" if "proof" in r else "other"
        rows.append((name, m.get("breaks_property", m.get("property", "")), c, verdict, how, summ, needs, "confirmed" if "demo_with=ok" in conf or "demo fails" in conf else conf[:60]))
out = ["# Seeded breaking changes and which checks catch them\n",
       "Each change was written by an independent sub-agent that saw only the property text and a scratch worktree;",
       "confirmed by `tools/confirm_seeded.sh` (builds with and without `-tags test`, untagged util baseline unchanged,",
       "demonstration passes without / fails with the change), then run through the quick check via `tools/eval_mut.sh`.\n",
       "| change | property | check | verdict | detected by | what it changes | needs to manifest | confirmation |", "|---|---|---|---|---|---|---|---|"]
for r in rows:
    out.append("| " + " | ".join(r) + " |")
open(os.path.join(V, "seeded", "RESULTS.md"), "w").write("\n".join(out) + "\n")
print(len(rows), "rows")
